"""C02 only: operation kinds that `vf.mdibops` does not have (round 4).  Same conventions: an operation is a plain JSON-able dict,
``gen_op`` looks at the current MDIB, ``apply_op`` executes it through the public transaction API and returns an ``mdibops.Applied``.

kinds (all names start with ``c2_`` so that the witness keys tell where a case came from)
  c2_stash / c2_write_stale   an entity of ANY kind is kept by the application and written later - in a descriptor, context state or state
                              transaction -, possibly twice, possibly after ``update()``; other transactions happened in between
  c2_subtree                  ONE descriptor transaction touches descendants (update classic / entity, get_descriptor + get_state, add a child,
                              write a context entity) and removes an ancestor of them - in both orders
  c2_ctx_recreate             a context state handle that existed before is created again (4 ways)
  c2_tree_create              a channel and its metrics are created in one transaction (again after they were removed)
  c2_ctxdescr_create          a context descriptor and its states are created in one descriptor transaction (again after removal)
  c2_descr_state              get_descriptor + get_state (or the entity) for component / operational / rt / alert / metric descriptors
  c2_write_entities           write_entities of a descriptor transaction (parent / child / context entity in arbitrary order) and of state transactions
"""
from __future__ import annotations

import random
from decimal import Decimal

from sdc11073.xml_types import pm_qnames as pm
from sdc11073.xml_types import pm_types

from . import mdibops
from .mdibops import Applied, BodyAbort, mutate_context_state, mutate_descriptor, mutate_state

_TR = mdibops._TR  # noqa: SLF001  kind -> name of the transaction context manager


# ------------------------------------------------------------------------------------------------
# helpers
# ------------------------------------------------------------------------------------------------
def ancestors(mdib, handle) -> list:
    out = []
    d = mdib.descriptions.handle.get_one(handle, allow_none=True)
    while d is not None and d.parent_handle is not None:
        out.append(d.parent_handle)
        d = mdib.descriptions.handle.get_one(d.parent_handle, allow_none=True)
    return out


def subtree(mdib, handle) -> set:
    d = mdib.descriptions.handle.get_one(handle, allow_none=True)
    if d is None:
        return set()
    return {x.Handle for x in mdib.get_all_descriptors_in_subtree(d)}


def ctx_handles(mdib, descr_handle) -> list:
    return sorted(s.Handle for s in mdib.context_states.descriptor_handle.get(descr_handle, []))


def state_kind(container) -> str:
    g = lambda n: getattr(container, n, False)  # noqa: E731
    if g('is_realtime_sample_array_metric_state') or g('is_realtime_sample_array_metric_descriptor'):
        return 'rt'
    if g('is_metric_state') or g('is_metric_descriptor'):
        return 'metric'
    if g('is_alert_state') or g('is_alert_descriptor'):
        return 'alert'
    if g('is_operational_state') or g('is_operational_descriptor'):
        return 'operational'
    if g('is_context_state') or g('is_context_descriptor'):
        return 'context'
    return 'component'


def _numeric(mdib, handle, parent, rng):
    cls = mdib.data_model.get_descriptor_container_class(pm.NumericMetricDescriptor)
    d = cls(handle=handle, parent_handle=parent)
    d.Type = pm_types.CodedValue(str(rng.randrange(100, 200000)))
    d.Unit = pm_types.CodedValue(str(rng.randrange(100, 200000)))
    d.Resolution = Decimal('0.1')
    d.MetricCategory = pm_types.MetricCategory.MEASUREMENT
    d.MetricAvailability = pm_types.MetricAvailability.CONTINUOUS
    return d


def _maybe_abort(op, where):
    if op.get('abort_at') == where:
        raise BodyAbort(where)


def _mutate_any_state(st, rng):
    if st.is_context_state:
        mutate_context_state(st, rng)
    else:
        mutate_state(st, rng)


# ------------------------------------------------------------------------------------------------
# execution
# ------------------------------------------------------------------------------------------------
def _x_stash(mdib, op, rng, ap, memo):
    ap.expect = 'empty'
    ent = mdib.entities.by_handle(op['handle'])
    if ent is not None:
        memo.setdefault('_c2stash', {})[op['handle']] = ent


def _skip(ap, why):
    ap.expect = 'empty'
    ap.op['skipped'] = why


def _x_write_stale(mdib, op, rng, ap, memo):  # noqa: C901, PLR0912, PLR0915
    """the application writes an entity object it has kept (read before other transactions changed the MDIB)"""
    h, tr = op['handle'], op['tr']
    stash = memo.setdefault('_c2stash', {})
    ent = stash.get(h) if op.get('keep') else stash.pop(h, None)
    if ent is None:
        return _skip(ap, 'nothing stashed')
    cur = mdib.descriptions.handle.get_one(h, allow_none=True)
    if cur is not None and cur.NODETYPE != ent.node_type:
        stash.pop(h, None)
        return _skip(ap, 'handle now names a descriptor of another type')
    multi = ent.is_multi_state
    if tr == 'descriptor':
        if cur is None and (ent.parent_handle is None or ent.parent_handle not in mdib.descriptions.handle):
            stash.pop(h, None)
            return _skip(ap, 'descriptor is gone and so is its parent')
        if multi and any(mdib.context_states.handle.get_one(sh, allow_none=True) is not None
                         and mdib.context_states.handle.get_one(sh).DescriptorHandle != h for sh in ent.states):
            stash.pop(h, None)
            return _skip(ap, 'a state handle of the entity is in use elsewhere')
        if op.get('refresh') and multi and cur is not None:
            ent.update()
        if op.get('mutate') in ('descr', 'both'):
            mutate_descriptor(ent.descriptor, rng)
        if op.get('mutate') in ('state', 'both'):
            if multi:
                for st in list(ent.states.values())[:2]:
                    mutate_context_state(st, rng)
            else:
                mutate_state(ent.state, rng)
        before_ctx = set(ctx_handles(mdib, h)) if multi else set()
        with mdib.descriptor_transaction() as mgr:
            _maybe_abort(op, 'start')
            mgr.write_entity(ent)
            _maybe_abort(op, 'end')
        ap.touched_descr |= {h} | ({ent.parent_handle} if cur is None else set())
        ap.touched_states |= ap.touched_descr
        if multi:
            ap.touched_ctx |= before_ctx | set(ent.states)
            ap.deleted_ctx = before_ctx - set(ent.states)
        if cur is None:
            ap.created.add(h)
        return None
    if cur is None:
        stash.pop(h, None)
        return _skip(ap, 'descriptor is gone')
    if tr == 'context':
        if not multi:
            return _skip(ap, 'not a context entity')
        if op.get('refresh'):
            ent.update()
        usable = [sh for sh in ent.states if mdib.context_states.handle.get_one(sh, allow_none=True) is not None
                  and mdib.context_states.handle.get_one(sh).DescriptorHandle == h]
        handles = []
        if op['variant'] in ('update_state', 'update_and_new') and usable:
            sh = usable[rng.randrange(len(usable))]
            mutate_context_state(ent.states[sh], rng)
            handles.append(sh)
        if op['variant'] in ('new_state', 'update_and_new') or not handles:
            if op['new_handle'] in ent.states or mdib.context_states.handle.get_one(op['new_handle'], allow_none=True) is not None:
                return _skip(ap, 'new handle in use')
            st = ent.new_state(op['new_handle'])
            mutate_context_state(st, rng)
            handles.append(st.Handle)
        with mdib.context_state_transaction() as mgr:
            _maybe_abort(op, 'start')
            mgr.write_entity(ent, handles)
            _maybe_abort(op, 'end')
        ap.touched_ctx |= set(handles)
        return None
    # single state written in its state transaction
    if multi:
        return _skip(ap, 'context entity')
    if mdib.states.descriptor_handle.get_one(h, allow_none=True) is None:
        return _skip(ap, 'no state in the mdib')
    mutate_state(ent.state, rng)
    with getattr(mdib, _TR[state_kind(ent.state)])() as mgr:
        _maybe_abort(op, 'start')
        mgr.write_entity(ent)
        _maybe_abort(op, 'end')
    ap.touched_states.add(h)
    return None


def _x_subtree(mdib, op, rng, ap, memo):  # noqa: C901, PLR0912
    """descendants are touched and an ancestor of them is removed inside ONE descriptor transaction"""
    anc = op['anc']
    anc_d = mdib.descriptions.handle.get_one(anc, allow_none=True)
    if anc_d is None:
        return _skip(ap, 'ancestor is gone')
    removed = subtree(mdib, anc)
    new_children = set()

    def remove(mgr):
        if op.get('remove_iface') == 'entity':
            mgr.remove_entity(mdib.entities.by_handle(anc))
        else:
            mgr.remove_descriptor(anc)

    with mdib.descriptor_transaction() as mgr:
        _maybe_abort(op, 'start')
        if op['order'] == 'remove_first':
            remove(mgr)
        for step in op['steps']:
            kind = step[0]
            if kind == 'update':
                if step[2] == 'entity':
                    ent = mdib.entities.by_handle(step[1])
                    mutate_descriptor(ent.descriptor, rng)
                    mgr.write_entity(ent)
                else:
                    mutate_descriptor(mgr.get_descriptor(step[1]), rng)
            elif kind == 'update_with_state':
                d = mgr.get_descriptor(step[1])
                mutate_descriptor(d, rng)
                mutate_state(mgr.get_state(step[1]), rng)
            elif kind == 'entity_with_state':
                ent = mdib.entities.by_handle(step[1])
                mutate_descriptor(ent.descriptor, rng)
                mutate_state(ent.state, rng)
                mgr.write_entity(ent)
            elif kind == 'add_child':
                if step[3] == 'entity':
                    ent = mdib.entities.new_entity(pm.NumericMetricDescriptor, step[1], step[2])
                    d = ent.descriptor
                    d.Type, d.Unit, d.Resolution = pm_types.CodedValue('1'), pm_types.CodedValue('2'), Decimal('0.1')
                    d.MetricCategory = pm_types.MetricCategory.MEASUREMENT
                    d.MetricAvailability = pm_types.MetricAvailability.CONTINUOUS
                    mutate_state(ent.state, rng)
                    mgr.write_entity(ent)
                else:
                    d = _numeric(mdib, step[1], step[2], rng)
                    st = mdib.data_model.mk_state_container(d)
                    mutate_state(st, rng)
                    mgr.add_descriptor(d, state_container=st)
                new_children.add(step[1])
            elif kind == 'ctx_entity':
                ent = mdib.entities.by_handle(step[1])
                mutate_descriptor(ent.descriptor, rng)
                if step[2] == 'update_state' and ent.states:
                    for st in ent.states.values():
                        mutate_context_state(st, rng)
                elif step[2] == 'add_state':
                    mutate_context_state(ent.new_state(step[3]), rng)
                mgr.write_entity(ent)
        _maybe_abort(op, 'middle')
        if op['order'] == 'touch_first':
            remove(mgr)
        _maybe_abort(op, 'end')
    ap.deleted |= removed
    ap.created |= new_children
    ap.touched_descr |= removed | new_children | ({anc_d.parent_handle} if anc_d.parent_handle else set())
    ap.touched_states |= ap.touched_descr
    return None


def _x_ctx_recreate(mdib, op, rng, ap, memo):
    """a context state handle that the MDIB has seen before (and that is gone) is created again"""
    dh, sh, via = op['descr'], op['handle'], op['sub']
    descr = mdib.descriptions.handle.get_one(dh, allow_none=True)
    if descr is None or not descr.is_context_descriptor or mdib.context_states.handle.get_one(sh, allow_none=True) is not None \
            or sh in mdib.descriptions.handle:
        return _skip(ap, 'not applicable any more')
    if via == 'mk_context_state':
        with mdib.context_state_transaction() as mgr:
            _maybe_abort(op, 'start')
            mutate_context_state(mgr.mk_context_state(dh, sh), rng)
            _maybe_abort(op, 'end')
    elif via == 'add_state':
        st = mdib.data_model.mk_state_container(descr)
        st.Handle = sh
        mutate_context_state(st, rng)
        with mdib.context_state_transaction() as mgr:
            _maybe_abort(op, 'start')
            mgr.add_state(st)
            _maybe_abort(op, 'end')
    else:
        ent = mdib.entities.by_handle(dh)
        mutate_context_state(ent.new_state(sh), rng)
        if via == 'entity_ctx_tr':
            with mdib.context_state_transaction() as mgr:
                _maybe_abort(op, 'start')
                mgr.write_entity(ent, [sh])
                _maybe_abort(op, 'end')
        else:  # entity_descr_tr
            with mdib.descriptor_transaction() as mgr:
                _maybe_abort(op, 'start')
                mgr.write_entity(ent)
                _maybe_abort(op, 'end')
            ap.touched_descr.add(dh)
            ap.touched_ctx |= set(ent.states)
    ap.touched_ctx.add(sh)
    return None


def _x_tree_create(mdib, op, rng, ap, memo):
    """a channel and its metrics are created in ONE transaction (parent first, the only order the API accepts)"""
    vmd, ch = op['vmd'], op['channel']
    if vmd not in mdib.descriptions.handle or any(h in mdib.descriptions.handle for h in [ch] + op['metrics']):
        return _skip(ap, 'not applicable any more')
    cls = mdib.data_model.get_descriptor_container_class(pm.ChannelDescriptor)
    with mdib.descriptor_transaction() as mgr:
        _maybe_abort(op, 'start')
        chd = cls(handle=ch, parent_handle=vmd)
        chd.SafetyClassification = pm_types.SafetyClassification.INF
        st = mdib.data_model.mk_state_container(chd)
        mutate_state(st, rng)
        mgr.add_descriptor(chd, state_container=st)
        _maybe_abort(op, 'middle')
        for m in op['metrics']:
            d = _numeric(mdib, m, ch, rng)
            st = mdib.data_model.mk_state_container(d)
            mutate_state(st, rng)
            mgr.add_descriptor(d, state_container=st)
        _maybe_abort(op, 'end')
    ap.created |= {ch} | set(op['metrics'])
    ap.touched_descr |= ap.created | {vmd}
    ap.touched_states |= ap.touched_descr
    return None


def _x_ctxdescr_create(mdib, op, rng, ap, memo):
    """a context descriptor and its states are created in ONE descriptor transaction"""
    sc, dh = op['parent'], op['handle']
    if sc not in mdib.descriptions.handle or dh in mdib.descriptions.handle or \
            any(mdib.context_states.handle.get_one(sh, allow_none=True) is not None for sh in op['states']):
        return _skip(ap, 'not applicable any more')
    with mdib.descriptor_transaction() as mgr:
        _maybe_abort(op, 'start')
        if op.get('iface') == 'entity':
            ent = mdib.entities.new_entity(pm.EnsembleContextDescriptor, dh, sc)
            ent.descriptor.SafetyClassification = pm_types.SafetyClassification.INF
            for sh in op['states']:
                mutate_context_state(ent.new_state(sh), rng)
            _maybe_abort(op, 'middle')
            mgr.write_entity(ent)
        else:
            cls = mdib.data_model.get_descriptor_container_class(pm.EnsembleContextDescriptor)
            d = cls(handle=dh, parent_handle=sc)
            d.SafetyClassification = pm_types.SafetyClassification.INF
            mgr.add_descriptor(d)
            _maybe_abort(op, 'middle')
            for sh in op['states']:
                st = mdib.data_model.mk_state_container(d)
                st.Handle = sh
                mutate_context_state(st, rng)
                mgr.add_state(st)
        _maybe_abort(op, 'end')
    ap.created.add(dh)
    ap.touched_descr |= {dh, sc}
    ap.touched_states |= {sc}
    ap.touched_ctx |= set(op['states'])
    return None


def _x_descr_state(mdib, op, rng, ap, memo):
    h = op['handle']
    if mdib.descriptions.handle.get_one(h, allow_none=True) is None or mdib.states.descriptor_handle.get_one(h, allow_none=True) is None:
        return _skip(ap, 'not applicable any more')
    with mdib.descriptor_transaction() as mgr:
        _maybe_abort(op, 'start')
        if op.get('iface') == 'entity':
            ent = mdib.entities.by_handle(h)
            mutate_descriptor(ent.descriptor, rng)
            mutate_state(ent.state, rng)
            mgr.write_entity(ent)
        elif op['order'] == 'descr_first':
            d = mgr.get_descriptor(h)
            st = mgr.get_state(h)
            mutate_descriptor(d, rng)
            mutate_state(st, rng)
        else:
            d = mgr.get_descriptor(h)
            mutate_descriptor(d, rng)
            st = mgr.get_state(h)
            mutate_state(st, rng)
        _maybe_abort(op, 'end')
    ap.touched_descr.add(h)
    ap.touched_states.add(h)
    return None


def _x_write_entities(mdib, op, rng, ap, memo):
    handles = [h for h in op['handles'] if h in mdib.descriptions.handle]
    if len(handles) < 2:
        return _skip(ap, 'not applicable any more')
    ents = [mdib.entities.by_handle(h) for h in handles]
    if op['sub'] == 'descriptor':
        before_ctx = set()
        for e in ents:
            mutate_descriptor(e.descriptor, rng)
            if e.is_multi_state:
                before_ctx |= set(e.states)
                for st in e.states.values():
                    mutate_context_state(st, rng)
            elif rng.random() < 0.5:
                mutate_state(e.state, rng)
        with mdib.descriptor_transaction() as mgr:
            _maybe_abort(op, 'start')
            mgr.write_entities(ents)
            _maybe_abort(op, 'end')
        ap.touched_descr |= set(handles)
        ap.touched_states |= set(handles)
        ap.touched_ctx |= before_ctx
    else:
        for e in ents:
            mutate_state(e.state, rng)
        with getattr(mdib, _TR[op['kind']])() as mgr:
            _maybe_abort(op, 'start')
            mgr.write_entities(ents)
            _maybe_abort(op, 'end')
        ap.touched_states |= set(handles)
    return None


_EXEC = {'c2_stash': _x_stash, 'c2_write_stale': _x_write_stale, 'c2_subtree': _x_subtree, 'c2_ctx_recreate': _x_ctx_recreate,
         'c2_tree_create': _x_tree_create, 'c2_ctxdescr_create': _x_ctxdescr_create, 'c2_descr_state': _x_descr_state,
         'c2_write_entities': _x_write_entities}


def is_own(op) -> bool:
    return op['op'] in _EXEC


def apply_op(mdib, op: dict, memo: dict) -> Applied:
    rng = random.Random(op.get('seed', 0))
    ap = Applied(op, 'abort' if 'abort_at' in op else 'commit')
    try:
        _EXEC[op['op']](mdib, op, rng, ap, memo)
        ap.outcome = 'ok'
    except BodyAbort as ex:
        ap.outcome = 'raised:BodyAbort'
        ap.exception = ex
    except Exception as ex:  # noqa: BLE001
        ap.outcome = f'raised:{type(ex).__name__}'
        ap.exception = ex
        import traceback
        ap.tb = [f'{f.filename.rsplit("/", 1)[-1]}:{f.lineno}:{f.name}' for f in traceback.extract_tb(ex.__traceback__)][-6:]
    if ap.outcome == 'ok' and ap.expect == 'commit':
        memo.setdefault('created', []).extend(sorted(ap.created))
        memo.setdefault('deleted', []).extend(sorted(ap.deleted))
        if op['op'] == 'c2_tree_create':
            memo.setdefault('_c2_trees', []).append([op['vmd'], op['channel'], list(op['metrics'])])
        if op['op'] == 'c2_ctxdescr_create':
            memo.setdefault('_c2_ctxdescrs', []).append([op['parent'], op['handle'], list(op['states'])])
    return ap


# ------------------------------------------------------------------------------------------------
# generation
# ------------------------------------------------------------------------------------------------
WEIGHTS = {'c2_stash': 5, 'c2_write_stale': 9, 'c2_subtree': 4, 'c2_ctx_recreate': 3, 'c2_tree_create': 2, 'c2_ctxdescr_create': 2,
           'c2_descr_state': 2, 'c2_write_entities': 2}
STEP_NAMES = ('update', 'update_with_state', 'entity_with_state', 'add_child', 'ctx_entity')


def subtree_shape(op) -> str:
    """what is done to the descendants, and on which side of the removal (goes into the witness detail and the case shape)"""
    steps = '+'.join(s[0] + ('.' + s[2] if s[0] == 'ctx_entity' else '') for s in op['steps'])
    return f'{steps}>remove_anc' if op['order'] == 'touch_first' else f'remove_anc>{steps}'


def subtree_sub(op) -> str:
    """stable key part (input class): order of removal and touches, single states or context states below the removed descriptor"""
    op['shape'] = subtree_shape(op)
    return op['order'] + ('.context' if op.get('context') or any(s[0] == 'ctx_entity' for s in op['steps']) else '.single')


def gen_op(rng: random.Random, mdib, memo: dict, dead_ctx: list, allow_abort: bool = True):
    """one own operation for the current MDIB, or None.  ``dead_ctx``: context state handles that existed once and are gone."""
    cat = mdibops.catalog(mdib)
    memo['n2'] = memo.get('n2', 0) + 1
    kinds = list(WEIGHTS)
    for _ in range(6):
        kind = rng.choices(kinds, [WEIGHTS[k] for k in kinds])[0]
        op = _gen_kind(kind, rng, mdib, cat, memo, dead_ctx)
        if op is not None:
            op['seed'] = rng.randrange(1 << 30)
            if allow_abort and kind != 'c2_stash' and rng.random() < 0.06:
                op['abort_at'] = rng.choice(['start', 'end'])
            return op
    return None


def _gen_kind(kind, rng, mdib, cat, memo, dead_ctx):  # noqa: C901, PLR0911, PLR0912, PLR0915
    n = memo['n2']
    if kind == 'c2_stash':
        pool = cat['metric'] + cat['alert'] + cat['channel'] + cat['vmd'] + cat['operational'][:4] + cat['rt'][:2] + cat['context'] * 4
        return {'op': 'c2_stash', 'handle': rng.choice(pool)} if pool else None
    if kind == 'c2_write_stale':
        stash = memo.get('_c2stash') or {}
        if not stash:
            return None
        h = rng.choice(sorted(stash))
        multi = stash[h].is_multi_state
        tr = rng.choice(['descriptor', 'descriptor', 'context'] if multi else ['descriptor', 'descriptor', 'state'])
        op = {'op': 'c2_write_stale', 'handle': h, 'tr': tr, 'keep': rng.random() < 0.5, 'refresh': multi and rng.random() < 0.2,
              'mutate': rng.choice(['descr', 'state', 'both', 'both', 'none'])}
        if tr == 'context':
            op['variant'] = rng.choice(['update_state', 'update_state', 'new_state', 'update_and_new'])
            op['new_handle'] = f'c2s{n}_{rng.randrange(1000)}'
        op['sub'] = f'{tr}_tr.' + ('multi' if multi else 'single') + ('.' + op['variant'] if tr == 'context' else '')
        return op
    if kind == 'c2_subtree':
        choice = rng.random()
        steps = []
        below_context = choice < 0.12 and bool(cat['context'])
        if below_context:
            # below the SystemContext (all context descriptors go)
            cd = rng.choice(cat['context'])
            anc = rng.choice(ancestors(mdib, cd)[:1] * 3 + ancestors(mdib, cd)[1:2] * (1 if len(cat['mds']) > 1 else 0))
            for _ in range(rng.choice([1, 1, 2])):
                cd = rng.choice(cat['context'])
                if anc not in ancestors(mdib, cd) or any(s[1] == cd for s in steps):
                    continue
                steps.append(rng.choice([['update', cd, 'classic'], ['update', cd, 'entity'], ['ctx_entity', cd, 'update_state', None],
                                         ['ctx_entity', cd, 'add_state', f'c2x{n}_{rng.randrange(1000)}']]))
        elif choice < 0.22:
            # an alert condition / signal below its alert system, an operation below its sco (the other update dictionaries)
            pool = [h for h in cat['alert'] + cat['operational'] if not mdib.descriptions.parent_handle.get(h)
                    and mdib.states.descriptor_handle.get_one(h, allow_none=True) is not None]
            pool = [h for h in pool if ancestors(mdib, h) and ancestors(mdib, h)[0] not in cat['mds']]
            if not pool:
                return None
            h = rng.choice(pool)
            anc = ancestors(mdib, h)[0]
            sibs = [x for x in pool if x != h and ancestors(mdib, x)[0] == anc]
            for x in [h] + sibs[:rng.choice([0, 1])]:
                k = rng.choice(['update', 'update_with_state', 'entity_with_state'])
                steps.append(['update', x, rng.choice(['classic', 'entity'])] if k == 'update' else [k, x])
        else:
            chans = [c for c in cat['channel'] if mdib.descriptions.parent_handle.get(c)]
            if len(cat['channel']) < 3 or not chans:
                return None
            ch = rng.choice(chans)
            up = ancestors(mdib, ch)
            anc = up[0] if (len(cat['vmd']) >= 3 and rng.random() < 0.3) else ch
            kids = sorted(d.Handle for d in mdib.descriptions.parent_handle.get(ch, [])
                          if mdib.states.descriptor_handle.get_one(d.Handle, allow_none=True) is not None
                          and not mdib.descriptions.parent_handle.get(d.Handle))
            used = set()
            for _ in range(rng.choice([1, 1, 2, 3])):
                k = rng.choice(['update', 'update', 'update_with_state', 'entity_with_state', 'add_child', 'add_child'])
                if k == 'add_child':
                    steps.append(['add_child', f'c2c{n}{len(steps)}_{rng.randrange(1000)}', ch, rng.choice(['classic', 'entity'])])
                    continue
                free = [x for x in kids + ([ch] if anc != ch else []) if x not in used]
                if not free:
                    continue
                t = rng.choice(free)
                used.add(t)
                steps.append(['update', t, rng.choice(['classic', 'entity'])] if k == 'update' else [k, t])
        if not steps:
            return None
        op = {'op': 'c2_subtree', 'anc': anc, 'steps': steps, 'order': 'touch_first' if rng.random() < 0.75 else 'remove_first',
              'remove_iface': rng.choice(['classic', 'entity']), 'context': below_context}
        op['sub'] = subtree_sub(op)
        return op
    if kind == 'c2_ctx_recreate':
        pool = [h for h in dead_ctx if h not in mdib.descriptions.handle]
        if not pool or not cat['context']:
            return None
        return {'op': 'c2_ctx_recreate', 'sub': rng.choice(['mk_context_state', 'add_state', 'entity_ctx_tr', 'entity_descr_tr']),
                'descr': rng.choice(cat['context']), 'handle': rng.choice(pool)}
    if kind == 'c2_tree_create':
        if not cat['vmd']:
            return None
        dead = [t for t in memo.get('_c2_trees', []) if t[0] in mdib.descriptions.handle
                and not any(h in mdib.descriptions.handle for h in [t[1]] + t[2])]
        if dead and rng.random() < 0.6:
            vmd, ch, metrics = rng.choice(dead)
            return {'op': 'c2_tree_create', 'sub': 'again', 'vmd': vmd, 'channel': ch, 'metrics': metrics}
        ch = f'c2ch{n}_{rng.randrange(1000)}'
        return {'op': 'c2_tree_create', 'sub': 'new', 'vmd': rng.choice(cat['vmd']), 'channel': ch,
                'metrics': [f'{ch}.m{i}' for i in range(rng.choice([1, 2, 3]))]}
    if kind == 'c2_ctxdescr_create':
        scs = sorted({mdib.descriptions.handle.get_one(c).parent_handle for c in cat['context']})
        if not scs:
            return None
        dead = [t for t in memo.get('_c2_ctxdescrs', []) if t[0] in mdib.descriptions.handle and t[1] not in mdib.descriptions.handle
                and not any(mdib.context_states.handle.get_one(sh, allow_none=True) is not None for sh in t[2])]
        iface = rng.choice(['classic', 'entity'])
        if dead and rng.random() < 0.7:
            sc, dh, states = rng.choice(dead)
            return {'op': 'c2_ctxdescr_create', 'sub': 'again', 'parent': sc, 'handle': dh, 'states': states, 'iface': iface}
        if len(cat['context']) >= 5:
            return None
        dh = f'c2cd{n}_{rng.randrange(1000)}'
        return {'op': 'c2_ctxdescr_create', 'sub': 'new', 'parent': rng.choice(scs), 'handle': dh,
                'states': [f'{dh}.s{i}' for i in range(rng.choice([0, 1, 2, 2]))], 'iface': iface}
    if kind == 'c2_descr_state':
        k = rng.choice(['component', 'component', 'operational', 'rt', 'alert', 'metric'])
        pool = [h for h in cat[k] if mdib.descriptions.handle.get_one(h).NODETYPE != pm.MdsDescriptor]
        if not pool:
            return None
        iface = rng.choice(['classic', 'classic', 'entity'])
        order = rng.choice(['descr_first', 'state_after_mutation'])
        return {'op': 'c2_descr_state', 'sub': f'{k}.' + ('entity' if iface == 'entity' else order), 'handle': rng.choice(pool), 'order': order,
                'iface': iface}
    if kind == 'c2_write_entities':
        if rng.random() < 0.6:
            chans = [c for c in cat['channel'] if mdib.descriptions.parent_handle.get(c)]
            if not chans:
                return None
            ch = rng.choice(chans)
            kids = sorted(d.Handle for d in mdib.descriptions.parent_handle.get(ch, []))
            handles = [ch] + rng.sample(kids, min(len(kids), rng.choice([1, 2]))) + ancestors(mdib, ch)[:rng.choice([0, 1])]
            if cat['context'] and rng.random() < 0.5:
                handles.append(rng.choice(cat['context']))
            rng.shuffle(handles)
            return {'op': 'c2_write_entities', 'sub': 'descriptor', 'handles': handles}
        k = rng.choice(['metric', 'alert', 'component', 'operational'])
        if len(cat[k]) < 2:
            return None
        return {'op': 'c2_write_entities', 'sub': 'state', 'kind': k, 'handles': rng.sample(cat[k], min(len(cat[k]), rng.choice([2, 3])))}
    return None
