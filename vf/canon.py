"""Semantic canonical form of sdc11073 containers and XML data types.

``canon(obj)``      nested tuples (hashable, order-stable, printable) that describe *what the object means*,
``canon_hash(obj)`` 16 hex digits of it,
``canon_diff(a, b)`` list of member paths at which two canonical forms differ (for mechanism keys / messages).

Rules (DESIGN.md 2.2)

* Any object that offers ``sorted_container_properties()`` (``ContainerBase`` / ``XMLTypeBase`` and everything derived)
  becomes ``('obj', <class name>, <NODETYPE as Clark string or None>, ((member, value), ...))``.  Every member is read
  with ``getattr(obj, name)`` - through its public descriptor - so *implied* values are applied exactly as an
  application sees them; the members appear in declaration (= schema) order.
  Descriptor containers additionally carry ``('parent_handle', ..)`` and ``('source_mds', ..)``, objects with extra
  payload that is not a declared property but travels on the wire (``HeaderInformationBlock.reference_parameters``)
  carry it as well.
* ``Decimal``  -> ``('dec', '<plain normalised digits>')``; -0 == 0; 1.50 == 1.5; never an exponent.
* enums -> their ``.value`` (a ``StringEnum`` member and the equal plain string are the same value);
* ``lxml.etree.QName`` -> Clark string ``'{ns}local'``;
* lxml elements -> ``('xml', <exclusive C14N text, comments dropped, tail dropped>)``;
* members declared as timestamps (``TimestampAttributeProperty``) -> ``('ts', <integer milliseconds>)`` and as durations
  (``DurationAttributeProperty`` / ``NodeDurationProperty``) -> ``('dur', <integer microseconds>)``: the wire resolution;
  which way a converter rounds is property C18's business, not the business of an equality oracle.
  ``CurrentTimestampAttributeProperty`` members (``ClockState.DateAndTime``: rewritten with ``time.time()`` on every
  serialisation) are replaced by ``('now',)``;
* lists / tuples -> ``('list', (...))`` (order kept: order is significant in every BICEPS list), dicts -> sorted
  ``('dict', ...)``, sets -> sorted ``('set', ...)``;
* frozen dataclasses (``XsdDateInformation``) -> ``('data', class name, fields...)``, ``tzinfo`` -> UTC offset in s;
* ``None`` stays ``None``; str / int / bool stay themselves; other floats -> ``('f', repr)``.

The module imports nothing from ``sdc11073`` and nothing from ``vf``: classes are recognised by duck typing and by the
*names* in the MRO of the property descriptors, so it also works on a patched or a scratch copy of the library.
"""
from __future__ import annotations

import dataclasses
import datetime
import enum
import hashlib
from decimal import Decimal
from fractions import Fraction

from lxml import etree

__all__ = ['canon', 'canon_hash', 'canon_diff', 'c14n']

_TS_PROPS = frozenset({'TimestampAttributeProperty'})
_NOW_PROPS = frozenset({'CurrentTimestampAttributeProperty'})
_DUR_PROPS = frozenset({'DurationAttributeProperty', 'NodeDurationProperty'})
_MAX_DEPTH = 60


def c14n(element) -> str:
    """Exclusive C14N text of an lxml element (comments and tail dropped)."""
    return etree.tostring(element, method='c14n', exclusive=True, with_comments=False, with_tail=False).decode('utf-8')


def _dec(value: Decimal):
    if value.is_nan() or value.is_infinite():
        return ('dec', str(value))
    if value == 0:
        return ('dec', '0')
    return ('dec', format(value.normalize(), 'f'))


def _prop_kind(prop) -> str | None:
    names = {c.__name__ for c in type(prop).__mro__}
    if names & _NOW_PROPS:
        return 'now'
    if names & _TS_PROPS:
        return 'ts'
    if names & _DUR_PROPS:
        return 'dur'
    return None


def _number(value, kind):
    if value is None:
        return None
    if isinstance(value, bool) or not isinstance(value, (int, float, Decimal)):
        return ('bad-' + kind, repr(value))
    try:
        return (kind, int(round(Fraction(value) * (1000 if kind == 'ts' else 1000000))))
    except (ValueError, OverflowError):  # nan / inf
        return ('bad-' + kind, repr(value))


def canon(obj, _depth: int = 0):
    """Canonical (semantic) form of ``obj`` as nested tuples - see module doc."""
    if _depth > _MAX_DEPTH:
        return ('too-deep', type(obj).__name__)
    if obj is None or isinstance(obj, (bool, int)):
        return obj
    if isinstance(obj, enum.Enum):
        return canon(obj.value, _depth + 1)
    if isinstance(obj, str):
        return str(obj)
    if isinstance(obj, Decimal):
        return _dec(obj)
    if isinstance(obj, float):
        return ('f', repr(obj))
    if isinstance(obj, etree.QName):
        return obj.text
    if isinstance(obj, etree._Element):  # noqa: SLF001
        return ('xml', c14n(obj))
    if isinstance(obj, (bytes, bytearray)):
        return ('bytes', bytes(obj).hex())
    sorted_props = getattr(obj, 'sorted_container_properties', None)
    if callable(sorted_props) and not isinstance(obj, type):
        members = []
        for name, prop in sorted_props():
            try:
                value = getattr(obj, name)
            except Exception as ex:  # noqa: BLE001  a member that cannot even be read is part of the value
                members.append((name, ('unreadable', type(ex).__name__)))
                continue
            kind = _prop_kind(prop)
            if kind == 'now':
                members.append((name, ('now',)))
            elif kind in ('ts', 'dur'):
                members.append((name, _number(value, kind)))
            else:
                members.append((name, canon(value, _depth + 1)))
        if getattr(obj, 'is_descriptor_container', False):
            members.append(('parent_handle', canon(getattr(obj, 'parent_handle', None), _depth + 1)))
            members.append(('source_mds', canon(getattr(obj, 'source_mds', None), _depth + 1)))
        extra = getattr(obj, 'reference_parameters', None)  # HeaderInformationBlock: on the wire, not a declared property
        if isinstance(extra, list):
            members.append(('reference_parameters', canon(extra, _depth + 1)))
        node_type = getattr(obj, 'NODETYPE', None)
        return ('obj', type(obj).__name__, canon(node_type, _depth + 1), tuple(members))
    if isinstance(obj, (list, tuple)):
        return ('list', tuple(canon(x, _depth + 1) for x in obj))
    if isinstance(obj, dict):
        return ('dict', tuple(sorted(((canon(k, _depth + 1), canon(v, _depth + 1)) for k, v in obj.items()), key=repr)))
    if isinstance(obj, (set, frozenset)):
        return ('set', tuple(sorted((canon(x, _depth + 1) for x in obj), key=repr)))
    if isinstance(obj, datetime.tzinfo):
        off = obj.utcoffset(None)
        return ('tz', None if off is None else int(off.total_seconds()))
    if dataclasses.is_dataclass(obj) and not isinstance(obj, type):
        return ('data', type(obj).__name__,
                tuple((f.name, canon(getattr(obj, f.name), _depth + 1)) for f in dataclasses.fields(obj)))
    return ('opaque', type(obj).__name__, repr(obj))


def canon_hash(obj) -> str:
    """16 hex digits identifying the canonical form of ``obj``."""
    return hashlib.blake2b(repr(canon(obj)).encode('utf-8', 'backslashreplace'), digest_size=8).hexdigest()


def canon_diff(a, b, path: str = '', limit: int = 8) -> list[tuple[str, object, object]]:
    """Compare two *canonical forms*; return ``[(member path, left, right), ...]`` (at most ``limit`` entries).

    The path names members with ``.``, list positions with ``[i]``; class changes are reported as ``<path>#class``."""
    out: list = []
    _diff(a, b, path, out, limit)
    return out


def _is_obj(x):
    return isinstance(x, tuple) and len(x) == 4 and x[0] == 'obj'


def _is_list(x):
    return isinstance(x, tuple) and len(x) == 2 and x[0] == 'list' and isinstance(x[1], tuple)


def _diff(a, b, path, out, limit):
    if len(out) >= limit or a == b:
        return
    if _is_obj(a) and _is_obj(b):
        if a[1] != b[1] or a[2] != b[2]:
            out.append((path + '#class', (a[1], a[2]), (b[1], b[2])))
            return
        da, db = dict(a[3]), dict(b[3])
        for name in list(da) + [n for n in db if n not in da]:
            if name not in da or name not in db:
                out.append((f'{path}.{name}' if path else name, da.get(name, '<missing>'), db.get(name, '<missing>')))
            else:
                _diff(da[name], db[name], f'{path}.{name}' if path else name, out, limit)
        return
    if _is_list(a) and _is_list(b):
        if len(a[1]) != len(b[1]):
            out.append((path + '#len', len(a[1]), len(b[1])))
            return
        for i, (x, y) in enumerate(zip(a[1], b[1])):
            _diff(x, y, f'{path}[{i}]', out, limit)
        return
    out.append((path, a, b))
