"""C16 only: the whole path  SdcProvider.set_location -> scopes factory -> WS-Discovery publish -> datagram -> consumer-side WSDiscovery ->
filter_services_inside / search_sdc_device_services_in_location,  with the real classes of /repo, no sockets and no threads.

Harness parts only (generators, transport, bookkeeping of what was published) - the verdicts are in vf/props/c16.py.

* ``mk_mdib_xml``   a generated, schema-valid MDIB with 1..n MDS (one location context descriptor each), optionally with location context
                    states that are already in the file (arbitrary identifications / location details, written as real XML text)
* ``Wire``          the "network": real ``WSDiscovery`` nodes whose networking thread is replaced by a recorder; every queued message is
                    serialised by the real factory, read back by the real reader (validate=True, as the receive loop does) and handed to
                    ``handle_received_message`` of the addressed node(s)
* ``PumpClock``     stands in for ``time`` in wsdimpl: ``sleep`` delivers what is on the wire (a search sees the answers to its own Probe)
* ``WireWorld``     one real ``SdcProvider`` (loop-back HTTP) publishing through its own node + one consumer node + foreign peers
"""
from __future__ import annotations

import logging
import uuid

from .wsdharness import RecordingNetworkingThread

NS_MSG = 'http://standards.ieee.org/downloads/11073/11073-10207-2017/message'
NS_PM = 'http://standards.ieee.org/downloads/11073/11073-10207-2017/participant'
DETAIL_ATTR = {'fac': 'Facility', 'bldng': 'Building', 'flr': 'Floor', 'poc': 'PoC', 'rm': 'Room', 'bed': 'Bed'}
MULTICAST = '239.255.255.250'


# ---------------------------------------------------------------------------------------------
# XML text
# ---------------------------------------------------------------------------------------------
def xml_ok(s: str) -> bool:
    """True if every character of s can be written to an XML 1.0 document (as itself or as a character reference)."""
    for ch in s:
        o = ord(ch)
        if not (o in (0x9, 0xA, 0xD) or 0x20 <= o <= 0xD7FF or 0xE000 <= o <= 0xFFFD or 0x10000 <= o <= 0x10FFFF):
            return False
    return True


def xml_attr(s: str) -> str:
    """quoted attribute value; white space that attribute value normalisation would change is written as a character reference."""
    out = []
    for ch in s:
        if ch in '&<>"\'\t\n\r' or ch in '\x85 ':
            out.append(f'&#{ord(ch)};')
        else:
            out.append(ch)
    return '"' + ''.join(out) + '"'


def xml_text(s: str) -> str:
    return ''.join(f'&#{ord(ch)};' if ch in '&<>\r' else ch for ch in s)


def mk_mdib_xml(n_mds: int = 1, states: list[dict] | None = None) -> bytes:
    """MDIB with MDS mds0..; location context descriptors lc0.. (other context descriptors: ec<i>, oc<i>, wc<i>, mc<i>, pc<i>).

    states: [{'descriptor': 'lc0', 'handle': 'st1', 'assoc': 'Assoc'|'Dis'|'No'|'Pre', 'idents': [(root|None, ext|None), ...],
              'detail': {'fac': ..} | None, 'validators': [(root, ext)]}]  are written into MdState as LocationContextState elements."""
    mds = []
    mdstates = []
    for i in range(n_mds):
        mds.append(
            f'<pm:Mds Handle="mds{i}" DescriptorVersion="0" SafetyClassification="MedA">'
            f'<pm:Type Code="{130535 + i}"><pm:ConceptDescription Lang="en-US">x</pm:ConceptDescription></pm:Type>'
            f'<pm:SystemContext Handle="sc{i}" DescriptorVersion="0" SafetyClassification="MedA">'
            f'<pm:PatientContext Handle="pc{i}" DescriptorVersion="0" SafetyClassification="MedA"/>'
            f'<pm:LocationContext Handle="lc{i}" DescriptorVersion="0" SafetyClassification="MedA"/>'
            f'<pm:EnsembleContext Handle="ec{i}" DescriptorVersion="0" SafetyClassification="MedA"/>'
            f'<pm:OperatorContext Handle="oc{i}" DescriptorVersion="0" SafetyClassification="MedA"/>'
            f'<pm:WorkflowContext Handle="wc{i}" DescriptorVersion="0" SafetyClassification="MedA"/>'
            f'<pm:MeansContext Handle="mc{i}" DescriptorVersion="0" SafetyClassification="MedA"/>'
            f'</pm:SystemContext></pm:Mds>')
        mdstates.append(f'<pm:State xsi:type="pm:MdsState" DescriptorHandle="mds{i}" StateVersion="0"/>'
                        f'<pm:State xsi:type="pm:SystemContextState" DescriptorHandle="sc{i}" StateVersion="0"/>')
    for st in states or []:
        inner = ''
        for root, ext in st.get('validators') or []:
            inner += '<pm:Validator' + (f' Root={xml_attr(root)}' if root is not None else '') + (f' Extension={xml_attr(ext)}' if ext is not None else '') + '/>'
        for root, ext in st.get('idents') or []:
            inner += '<pm:Identification' + (f' Root={xml_attr(root)}' if root is not None else '') + (f' Extension={xml_attr(ext)}' if ext is not None else '') + '/>'
        if st.get('detail') is not None:
            inner += '<pm:LocationDetail' + ''.join(f' {DETAIL_ATTR[e]}={xml_attr(v)}' for e, v in st['detail'].items()) + '/>'
        binding = ' BindingMdibVersion="0"' if st.get('assoc', 'Assoc') in ('Assoc', 'Dis') else ''
        if st.get('assoc') == 'Dis':
            binding += ' UnbindingMdibVersion="1"'
        mdstates.append(f'<pm:State xsi:type="pm:LocationContextState" DescriptorHandle="{st["descriptor"]}" StateVersion="0" '
                        f'Handle="{st["handle"]}" ContextAssociation="{st.get("assoc", "Assoc")}"{binding}>{inner}</pm:State>')
    seq = 'urn:uuid:00000000-0000-0000-0000-000000000001'
    return (f'<?xml version="1.0" encoding="UTF-8"?>\n<msg:GetMdibResponse xmlns:msg="{NS_MSG}" xmlns:pm="{NS_PM}" '
            f'xmlns:xsi="http://www.w3.org/2001/XMLSchema-instance" MdibVersion="1" SequenceId="{seq}">'
            f'<msg:Mdib MdibVersion="1" SequenceId="{seq}"><pm:MdDescription DescriptionVersion="0">{"".join(mds)}</pm:MdDescription>'
            f'<pm:MdState StateVersion="0">{"".join(mdstates)}</pm:MdState></msg:Mdib></msg:GetMdibResponse>').encode('utf-8')


def mk_mdib(n_mds: int = 1, states: list[dict] | None = None):
    from sdc11073.definitions_sdc import SdcV1Definitions  # noqa: F401  registers the protocol
    from sdc11073.mdib import ProviderMdib
    return ProviderMdib.from_string(mk_mdib_xml(n_mds, states))


# ---------------------------------------------------------------------------------------------
# the network of WS-Discovery nodes
# ---------------------------------------------------------------------------------------------
class Node:
    def __init__(self, wire: 'Wire', ip: str):
        from sdc11073.wsdiscovery.wsdimpl import WSDiscovery
        self.ip = ip
        self.wsd = WSDiscovery(ip, logger=logging.getLogger('vf.c16.wsd'))
        self.rec = RecordingNetworkingThread()
        self.wsd._networking_thread = self.rec
        self.wsd._server_started = True
        wire.nodes.append(self)


class Wire:
    """delivers what the nodes queued.  Multicast goes to every other node, unicast to the node with that ip."""

    def __init__(self):
        self.nodes: list[Node] = []
        self.log: list[tuple[str, str, bytes]] = []  # (source ip, action local name, datagram)
        self.dropped = 0
        self.delivered = 0
        self.handler_errors: list[tuple[str, Exception]] = []

    def _deliver(self, data: bytes, src_ip: str, targets):
        from lxml import etree
        from sdc11073.exceptions import ValidationError
        from sdc11073.wsdiscovery.common import message_reader
        for node in targets:
            try:
                rm = message_reader.read_received_message(data, validate=True)  # every receiver parses the datagram itself
            except (etree.XMLSyntaxError, ValidationError):
                self.dropped += 1
                return None
            try:
                node.wsd.handle_received_message(rm, (src_ip, 3702))
                self.delivered += 1
            except Exception as ex:  # noqa: BLE001  the receive loop logs and goes on; kept for the report
                self.handler_errors.append((rm.action.rsplit('/', 1)[-1], ex))
        return True

    def pump(self, max_rounds: int = 8):
        """deliver until nothing is queued any more (answers produce new messages); bounded."""
        for _ in range(max_rounds):
            batch = []
            for node in self.nodes:
                for cm, addr, _port, _params in node.rec.out:
                    batch.append((node, cm, addr))
                node.rec.out.clear()
            if not batch:
                return
            for node, cm, addr in batch:
                data = cm.serialize()
                action = cm.p_msg.header_info_block.Action if hasattr(cm.p_msg, 'header_info_block') else ''
                self.log.append((node.ip, str(action).rsplit('/', 1)[-1], data))
                if addr == MULTICAST:
                    targets = [n for n in self.nodes if n is not node]
                else:
                    targets = [n for n in self.nodes if n.ip == addr]
                self._deliver(data, node.ip, targets)

    def inject(self, data: bytes, src_ip: str, node: Node):
        """a datagram from a device that is not one of the nodes."""
        self.log.append((src_ip, 'raw', data))
        return self._deliver(data, src_ip, [node])


class PumpClock:
    """module-like stand-in for ``time`` in sdc11073.wsdiscovery.wsdimpl: one logical clock; sleeping delivers the datagrams on the wire."""

    def __init__(self, wire: Wire, start: float = 1_790_000_000.0):
        self.now = start
        self.wire = wire
        self.sleeps = 0

    def time(self):
        return self.now

    def monotonic(self):
        return self.now

    def perf_counter(self):
        return self.now

    def sleep(self, seconds):
        self.sleeps += 1
        if self.sleeps > 100000:
            raise RuntimeError('harness: search loop does not terminate')
        self.wire.pump()
        self.now += max(seconds, 0.001)


def raw_hello(rng, epr: str, scopes: list[str] | None, types: bool = True, version: int = 1, instance_id: int = 1, kind: str = 'Hello',
              match_by: str | None = None) -> bytes:
    """Hello / ProbeMatches of another implementation: own prefixes, arbitrary white space between the scopes."""
    s12, wsa, wsd = 'http://www.w3.org/2003/05/soap-envelope', 'http://www.w3.org/2005/08/addressing', 'http://docs.oasis-open.org/ws-dd/ns/discovery/2009/01'
    sep = [' ', ' ', '  ', '\n', '\t', '\n    ']
    scopes_el = ''
    if scopes is not None:
        text = rng.choice(['', ' ', '\n  ']) + ''.join(xml_text(s) + rng.choice(sep) for s in scopes)
        attr = f' MatchBy={xml_attr(match_by)}' if match_by is not None else ''
        scopes_el = f'<d:Scopes{attr}>{text}</d:Scopes>' if scopes or rng.random() < 0.5 else f'<d:Scopes{attr}/>'
    types_el = ('<d:Types xmlns:dp="http://docs.oasis-open.org/ws-dd/ns/dpws/2009/01" xmlns:md="http://standards.ieee.org/downloads/11073/11073-20702-2016">'
                'dp:Device md:MedicalDevice</d:Types>') if types else ''
    announce = (f'<a:EndpointReference><a:Address>{xml_text(epr)}</a:Address></a:EndpointReference>{types_el}{scopes_el}'
                f'<d:XAddrs>http://10.9.9.9:8080/{uuid.UUID(int=rng.getrandbits(128)).hex}</d:XAddrs><d:MetadataVersion>{version}</d:MetadataVersion>')
    if kind == 'Hello':
        body, to, relates = f'<d:Hello>{announce}</d:Hello>', 'urn:docs-oasis-open-org:ws-dd:ns:discovery:2009:01', ''
    else:
        body = f'<d:ProbeMatches><d:ProbeMatch>{announce}</d:ProbeMatch></d:ProbeMatches>'
        to, relates = wsa + '/anonymous', '<a:RelatesTo>urn:uuid:00000000-0000-0000-0000-00000000beef</a:RelatesTo>'
    mid = 'urn:uuid:' + str(uuid.UUID(int=rng.getrandbits(128)))
    return (f'<?xml version="1.0" encoding="UTF-8"?><e:Envelope xmlns:e="{s12}" xmlns:a="{wsa}" xmlns:d="{wsd}"><e:Header><a:To>{to}</a:To>'
            f'<a:Action>{wsd}/{kind}</a:Action><a:MessageID>{mid}</a:MessageID>{relates}<d:AppSequence InstanceId="{instance_id}" MessageNumber="1"/>'
            f'</e:Header><e:Body>{body}</e:Body></e:Envelope>').encode('utf-8')


# ---------------------------------------------------------------------------------------------
# provider + consumer
# ---------------------------------------------------------------------------------------------
class WireWorld:
    def __init__(self, n_mds: int = 1, epr_int: int = 0x1600):
        from sdc11073.provider import SdcProvider
        from sdc11073.provider.providerimpl import provider_components_sync_factory
        from sdc11073.wsdiscovery import wsdimpl

        from . import loopback
        from .mdibharness import mk_model_and_device
        self.wire = Wire()
        self.clock = PumpClock(self.wire)
        wsdimpl.time = self.clock  # search_services / search_multiple_types sleep on it
        self.pnode = Node(self.wire, '10.0.0.1')
        self.cnode = Node(self.wire, '10.0.0.2')
        self.network = loopback.Network()
        self.mdib = mk_mdib(n_mds)
        self.handles = [f'lc{i}' for i in range(n_mds)]
        comps = provider_components_sync_factory()
        comps.soap_client_class = loopback.mk_soap_client_class(self.network)
        model, device = mk_model_and_device()
        self.server = self.network.new_server(scheme='http')
        self.provider = SdcProvider(self.pnode.wsd, model, device, self.mdib, epr=uuid.UUID(int=epr_int), components=comps)
        self.provider.start_all(start_rtsample_loop=False, shared_http_server=self.server)
        self.epr = self.provider.epr_urn
        self.mdib_model: dict[str, dict] = {}  # descriptor handle -> elements of the associated location (what the MDIB holds)
        self.pub_model: dict[str, dict] | None = None  # the same at the moment of the last publish (None: never published)
        self.history: list[dict] = []  # every location that was ever associated

    def published(self):
        """call after the provider published: the MDIB content is on the wire now."""
        self.pub_model = {h: dict(v) for h, v in self.mdib_model.items()}
        self.wire.pump()

    def last_hello_scopes(self) -> list[str] | None:
        """scope strings of the provider's last Hello, read from the datagram with lxml only (independent of the library's reader)."""
        from lxml import etree
        for src, action, data in reversed(self.wire.log):
            if src == self.pnode.ip and action == 'Hello':
                doc = etree.fromstring(data)
                el = doc.find('.//{http://docs.oasis-open.org/ws-dd/ns/discovery/2009/01}Scopes')
                return (el.text or '').split() if el is not None else None
        return None

    def stop(self):
        try:
            self.provider.stop_all(send_subscription_end=False)
            self.wire.pump()
        except Exception:  # noqa: BLE001
            pass
