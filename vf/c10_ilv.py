"""C10 helper: forces the schedules 'a second party changes the contexts of the provider MDIB while / just before the first party is
inside its own context state transaction' - without any timing.

``Interleaver(mdib)`` replaces ``mdib.context_state_transaction`` *on the instance* by a wrapper around the real context manager and
``mdib.mdib_lock`` / ``mdib._tr_lock`` by proxies around the real locks (they only report who asks for them).
With an armed ``Plan`` the wrapper stops the OWNER thread at a chosen point of its (first) context state transaction

  before_open    the owner called context_state_transaction() but does not have the transaction lock yet: everything it read before
                 is about to become stale
  after_open     directly after the transaction was opened (the owner did not read anything inside yet)
  before_write   at the owner's first ``mgr.write_entity`` call (entity interface; falls back to before_commit when the owner
                 never calls it)
  before_commit  after the body of the owner's ``with`` block, before the commit

and calls ``plan.start()`` there, which brings the second party on its way (starts a thread that calls set_location / opens a
transaction, or sends a SetContextState request whose handler runs in the operation worker thread of the provider).  The owner then
waits for a LOGICAL event: the second party asks for one of the locks the owner holds ('blocked': it will wait until the owner is done)
or the second party finished ('completed_inside' the owner's open transaction / 'ran_before' for before_open).  Only then the owner
continues.  A wall-clock watchdog exists only to turn a harness dead-lock into INCONCLUSIVE.
"""
from __future__ import annotations

import threading
from contextlib import contextmanager

WATCHDOG = 120.0
POINTS = ('before_open', 'after_open', 'before_write', 'before_commit')


class Plan:
    def __init__(self, point, is_owner, is_second, start):
        self.point = point
        self.is_owner = is_owner
        self.is_second = is_second
        self.start = start
        self.entered = False     # the owner reached its transaction
        self.fired = False
        self.how = None          # 'blocked' | 'completed_inside' | 'ran_before' | 'watchdog'
        self.attempted = False
        self.finished = False
        self._progress = threading.Event()

    def note_attempt(self):
        self.attempted = True
        self._progress.set()

    def note_finished(self):
        self.finished = True
        self._progress.set()

    def fire(self):
        if self.fired:
            return
        self.fired = True
        self.start()
        if not self._progress.wait(WATCHDOG):
            self.how = 'watchdog'
        elif self.point == 'before_open':
            self.how = 'ran_before' if self.finished else 'blocked'
        elif self.attempted:
            self.how = 'blocked'
        else:
            self.how = 'completed_inside'


class _LockProxy:
    def __init__(self, real, ilv):
        self._real = real
        self._ilv = ilv

    def acquire(self, blocking=True, timeout=-1):
        plan = self._ilv.plan
        if plan is not None and plan.fired and plan.point != 'before_open' and plan.is_second(threading.current_thread()):
            plan.note_attempt()  # the owner holds this lock until its transaction is over
        return self._real.acquire(blocking, timeout)

    def release(self):
        self._real.release()

    __enter__ = acquire

    def __exit__(self, *a):
        self._real.release()


class Interleaver:
    def __init__(self, mdib):
        self.mdib = mdib
        self._orig = mdib.context_state_transaction
        self.plan = None
        mdib.context_state_transaction = self._wrapped
        mdib.mdib_lock = _LockProxy(mdib.mdib_lock, self)
        mdib._tr_lock = _LockProxy(mdib._tr_lock, self)  # noqa: SLF001

    def arm(self, point, is_owner, is_second, start) -> Plan:
        self.plan = Plan(point, is_owner, is_second, start)
        return self.plan

    def disarm(self):
        self.plan = None

    @contextmanager
    def _wrapped(self):
        plan = self.plan
        mine = plan is not None and not plan.entered and plan.is_owner(threading.current_thread())
        if mine:
            plan.entered = True
            if plan.point == 'before_open':
                plan.fire()
        with self._orig() as mgr:
            if mine:
                if plan.point == 'after_open':
                    plan.fire()
                elif plan.point == 'before_write':
                    orig_write = mgr.write_entity

                    def write_entity(*args, **kwargs):
                        plan.fire()
                        return orig_write(*args, **kwargs)
                    mgr.write_entity = write_entity
            yield mgr
            if mine:
                plan.fire()  # before_commit (idempotent)
