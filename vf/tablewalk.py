"""index_vs_scan: recompute every index of a MultiKeyLookup from table.objects and compare (C11; side monitor elsewhere)."""
from __future__ import annotations


def _expected_keys(index_def, obj):
    """keys under which obj must be found in index_def according to its own key function and class semantics.
    Returns a list (possibly empty)."""
    from sdc11073 import multikey
    try:
        keys = index_def._get_key_func(obj)
    except (TypeError, AttributeError):
        return []  # _mk_indices deliberately skips objects whose key function does not apply
    if keys is None and not index_def._index_none_values:
        return []
    if isinstance(index_def, multikey.IndexDefinition1n):
        try:
            return list(keys)
        except TypeError:
            return []
    return [keys]


def index_vs_scan(table, check_object_ids: bool = True) -> list[str]:
    """Return a list of problem descriptions (empty = every lookup agrees with a linear scan).  Call under table.lock
    or at a quiescent point."""
    problems = []
    objects = list(table._objects)
    by_id = {id(o): o for o in objects}
    for name, idx in table._idx_defs.items():
        expected: dict = {}
        for obj in objects:
            for k in _expected_keys(idx, obj):
                try:
                    expected.setdefault(k, set()).add(id(obj))
                except TypeError:
                    pass  # unhashable key: library skips it as well
        actual = {}
        for k, lst in dict.items(idx):
            ids = [id(o) for o in lst]
            if len(lst) == 0:
                problems.append(f'index {name}: empty bucket left behind for key {k!r}')
            if len(set(ids)) != len(ids) and not _is_1n(idx):
                problems.append(f'index {name}: object listed twice under key {k!r}')
            actual[k] = set(ids)
        for k in set(expected) | set(actual):
            e, a = expected.get(k, set()), actual.get(k, set())
            if e != a:
                missing = [_descr(by_id.get(i)) for i in e - a]
                stale = [_descr(by_id.get(i, None)) if i in by_id else '<object not in table>' for i in a - e]
                problems.append(f'index {name} key {k!r}: lookup != scan; missing in lookup {missing}, only in lookup {stale}')
    if check_object_ids:
        for oid, refs in table._object_ids.items():
            if oid not in by_id:
                if refs:
                    problems.append('_object_ids holds references for an object that is not in the table')
                continue
            for ref in refs:
                lst = dict.get(ref.index_dict, ref.key)
                if lst is None or not any(o is by_id[oid] for o in lst):
                    problems.append(f'_object_ids references key {ref.key!r} where the object is not indexed')
        for obj in objects:
            n_expected = sum(len(_expected_keys(idx, obj)) for idx in table._idx_defs.values())
            n_refs = len(table._object_ids.get(id(obj), [])) if id(obj) in table._object_ids else None
            if n_refs is None:
                problems.append(f'object {_descr(obj)} is in the table but unknown to _object_ids (cannot be removed / re-indexed)')
            elif n_refs != n_expected:
                problems.append(f'object {_descr(obj)}: {n_refs} index references recorded, {n_expected} expected')
    return problems


def _is_1n(idx):
    from sdc11073 import multikey
    return isinstance(idx, multikey.IndexDefinition1n)


def _descr(obj):
    if obj is None:
        return None
    for attr in ('Handle', 'identifier_uuid', 'name'):
        v = getattr(obj, attr, None)
        if v is not None:
            return f'{type(obj).__name__}({attr}={v!r})'
    return type(obj).__name__


def table_snapshot(table):
    """identity-level snapshot of a table (object ids, index contents, reference bookkeeping)."""
    return (frozenset(id(o) for o in table._objects),
            {name: {k: tuple(id(o) for o in lst) for k, lst in dict.items(idx)} for name, idx in table._idx_defs.items()},
            {oid: tuple((id(r.index_dict), r.key if not isinstance(r.key, list) else tuple(r.key)) for r in refs)
             for oid, refs in table._object_ids.items() if refs or oid in {id(o) for o in table._objects}})
