"""C06 only - two notification threads inside one consumer MDIB under schedule control.

The synchronous RequestDispatcher handles every subscription connection in its own http server thread, so two reports can be
inside the ConsumerMdib at the same time.  ``RaceCtl`` makes such an interleaving a controlled, wall-clock free experiment:

* the MDIB lock and the three table locks of ONE ConsumerMdib instance are replaced (on the instance) by proxies around the real
  locks.  A proxy reports scheduling points ('before' / 'acquired' / 'released') and - the important part - tells when a thread is
  ABOUT TO BLOCK on a lock another thread holds ('blocked');
* the version gate and the version write of that instance report the points ('gate', 'accept' | 'reject') and ('write', 'before' |
  'after');
* ``race(first, second, select)`` runs ``first`` in thread B; at the selected point of B it starts thread A with ``second`` and waits
  until A has *settled* = ran to completion or is about to block on one of the proxied locks; then B continues.  That is exactly
  "the scheduler preempts B at this point and runs A as far as it can get".
* at every point (of both threads) the public ``mdib_version`` attribute is read, like an application thread would do; the series is
  returned - the oracle (non-decreasing) is applied by the caller.

Nothing here decides anything; the wall-clock time-outs are watchdogs only (firing = not decided).
"""
from __future__ import annotations

import threading
from collections import Counter

WATCHDOG = 60.0


class _Lock:
    def __init__(self, real, name, ctl: 'RaceCtl'):
        self._real, self._name, self._ctl = real, name, ctl

    def acquire(self, blocking=True, timeout=-1):
        ctl = self._ctl
        ctl.point('before', self._name)
        if not blocking or timeout != -1:
            ok = self._real.acquire(blocking, timeout)
        else:
            ok = self._real.acquire(False)
            if not ok:
                ctl.blocked(self._name)
                ok = self._real.acquire()
        if ok:
            ctl.point('acquired', self._name)
        return ok

    def release(self):
        self._real.release()
        self._ctl.point('released', self._name)

    def __enter__(self):
        self.acquire()
        return self

    def __exit__(self, *a):
        self.release()


class RaceCtl:
    def __init__(self, cm):
        self.cm = cm
        self.armed = None
        self.series = None
        self.watch: dict = {}      # thread -> (event set when the thread is about to block / is done, list of lock names)
        self._series_lock = threading.Lock()
        self.hooks = []            # names of the hooks that could be installed
        cm.mdib_lock = _Lock(cm.mdib_lock, 'mdib', self)
        for tname in ('descriptions', 'states', 'context_states'):
            table = getattr(cm, tname)
            proxy = _Lock(table._lock, tname, self)
            table._lock = proxy
            for idx in table._idx_defs.values():
                idx.set_lock(proxy)
        gate = getattr(cm, '_can_accept_mdib_version', None)
        if gate is not None:
            def gate_hook(*a, **k):
                res = gate(*a, **k)
                self.point('gate', 'accept' if res else 'reject')
                return res
            cm._can_accept_mdib_version = gate_hook
            self.hooks.append('gate')
        write = getattr(cm, '_update_from_mdib_version_group', None)
        if write is not None:
            def write_hook(*a, **k):
                self.point('write', 'before')
                try:
                    return write(*a, **k)
                finally:
                    self.point('write', 'after')
            cm._update_from_mdib_version_group = write_hook
            self.hooks.append('write')

    # -- events ------------------------------------------------------------------------------------
    def point(self, kind, name):
        self.read_version()
        a = self.armed
        if a is None or a['fired'] or threading.current_thread() is not a['thread']:
            return
        key = (kind, name)
        occurrence = a['seen'][key]
        a['seen'][key] += 1
        index = a['n']
        a['n'] += 1
        sel = a['select']
        if (sel[0] == 'index' and sel[1] == index) or (sel[0] != 'index' and (sel[0], sel[1]) == key and sel[2] == occurrence):
            a['fired'] = True
            a['action']()

    def read_version(self):
        """one read of the public attribute by an 'application thread'; read + append are atomic, so the order of the series is the order
        of the reads and a decrease in the series is a decrease of the attribute over time."""
        if self.series is not None:
            with self._series_lock:
                if self.series is not None:
                    self.series.append(self.cm.mdib_version)

    def blocked(self, name):
        w = self.watch.get(threading.current_thread())
        if w is not None:
            w[1].append(name)
            w[0].set()

    def watch_thread(self, thread) -> threading.Event:
        """the event is set as soon as ``thread`` is about to block on a proxied lock (the thread's target sets it when it is done)."""
        ev = threading.Event()
        self.watch[thread] = (ev, [])
        return ev

    def unwatch(self, thread):
        return self.watch.pop(thread, (None, []))[1]

    # -- the experiment ----------------------------------------------------------------------------
    def race(self, first, second, select) -> dict:
        """select = ('index', k) k-th scheduling point of the first thread, or (kind, name, occurrence)."""
        res = {'preempted': False, 'second_blocked_on': [], 'second_done_inside': False, 'watchdog': False, 'points': 0, 'errors': []}
        done_a = threading.Event()

        def run_a():
            try:
                second()
            except BaseException as ex:  # noqa: BLE001
                res['errors'].append(repr(ex))
            finally:
                done_a.set()
                settled.set()

        def run_b():
            try:
                first()
            except BaseException as ex:  # noqa: BLE001
                res['errors'].append(repr(ex))

        th_a = threading.Thread(target=run_a, daemon=True, name='c06-race-A')
        th_b = threading.Thread(target=run_b, daemon=True, name='c06-race-B')
        settled = self.watch_thread(th_a)

        def action():
            res['preempted'] = True
            th_a.start()
            if not settled.wait(WATCHDOG):
                res['watchdog'] = True
            res['second_done_inside'] = done_a.is_set()
            self.read_version()

        self.series = [self.cm.mdib_version]
        self.armed = {'thread': th_b, 'select': tuple(select), 'action': action, 'fired': False, 'seen': Counter(), 'n': 0}
        th_b.start()
        th_b.join(WATCHDOG)
        res['points'] = self.armed['n']
        self.armed = None
        if not res['preempted']:
            th_a.start()      # the selected point does not exist in this delivery: plain in-order delivery
        th_a.join(WATCHDOG)
        if th_a.is_alive() or th_b.is_alive():
            res['watchdog'] = True
        self.read_version()
        with self._series_lock:
            res['versions'], self.series = self.series, None
        res['second_blocked_on'] = self.unwatch(th_a)
        return res
