"""L2 harness: feed raw HTTP/1.1 bytes to the REAL DispatchingRequestHandler on in-memory streams (used by C13 and C17).

* the handler is constructed exactly as socketserver does (``Handler(request, client_address, server)``), on a fake socket
  whose ``makefile('rb')`` is a real ``io.BufferedReader`` (same class a socket gives) over a counting raw stream;
* every ``read``/``readline`` of the handler is counted; calls that start when the input is already exhausted are counted
  separately.  More than ``eof_budget`` such calls, or more than ``call_budget(len(input))`` calls in total, abort the handler
  with ``StepBudgetExceeded`` (a BaseException, so no ``except Exception`` of the code under test can swallow it): this is
  the spin witness, decided on logical steps;
* the bytes written are parsed by ``http.client.HTTPResponse`` (independent implementation of status line, header and
  chunked framing).
"""
from __future__ import annotations

import http.client
import io
import re
import zlib


class StepBudgetExceeded(BaseException):
    """Raised inside the code under test when it exceeds its read-step budget."""

    def __init__(self, kind, info):
        super().__init__(kind, info)
        self.kind = kind
        self.info = info


class _Raw(io.RawIOBase):
    """Peer has sent ``data`` and then shut down its sending side (reads at the end return EOF, never block)."""

    def __init__(self, data: bytes):
        super().__init__()
        self._data = data
        self._pos = 0
        self.raw_reads = 0
        self.raw_eof_reads = 0

    def readable(self):
        return True

    def readinto(self, b):
        self.raw_reads += 1
        n = min(len(b), len(self._data) - self._pos)
        if n <= 0:
            self.raw_eof_reads += 1
            return 0
        b[:n] = self._data[self._pos:self._pos + n]
        self._pos += n
        return n


class CountingReader(io.BufferedReader):
    """io.BufferedReader (what socket.makefile('rb') returns) that counts the calls made by the code under test."""

    def __init__(self, data: bytes, eof_budget: int = 12, call_budget: int | None = None):
        self._raw = _Raw(data)
        super().__init__(self._raw, buffer_size=io.DEFAULT_BUFFER_SIZE)
        self.total = len(data)
        self.delivered = 0
        self.calls = 0
        self.eof_calls = 0          # calls that started when everything had already been delivered
        self.unbounded_reads = 0    # read() / read(-1): "until the peer closes"
        self.negative_reads = 0
        self.eof_budget = eof_budget
        self.call_budget = call_budget if call_budget is not None else 400 + 24 * len(data)
        self.trace: list = []
        self.run1 = 0               # current run of consecutive read(1) calls
        self.max_run1 = 0

    def _enter(self, what, n):
        self.calls += 1
        if what == 'read' and n == 1:
            self.run1 += 1
            if self.run1 > self.max_run1:
                self.max_run1 = self.run1
        else:
            self.run1 = 0
        if len(self.trace) < 40:
            self.trace.append((what, n))
        if self.delivered >= self.total:
            self.eof_calls += 1
            if self.eof_calls > self.eof_budget:
                raise StepBudgetExceeded('eof_spin', {'calls_after_eof': self.eof_calls, 'calls': self.calls,
                                                      'last_calls': self.trace[-6:]})
        if self.calls > self.call_budget:
            raise StepBudgetExceeded('call_budget', {'calls': self.calls, 'budget': self.call_budget, 'input_len': self.total})

    def read(self, n=-1):
        self._enter('read', n)
        if n is None or n == -1:
            self.unbounded_reads += 1
        elif isinstance(n, int) and n < -1:
            self.negative_reads += 1
        r = super().read(n)
        self.delivered += len(r)
        return r

    def read1(self, n=-1):
        self._enter('read1', n)
        r = super().read1(n)
        self.delivered += len(r)
        return r

    def readline(self, n=-1):
        self._enter('readline', n)
        r = super().readline(n)
        self.delivered += len(r)
        return r

    def readinto(self, b):
        self._enter('readinto', len(b))
        r = super().readinto(b)
        self.delivered += r or 0
        return r


class FakeSocket:
    """What StreamRequestHandler needs from a socket."""

    def __init__(self, data: bytes, peer=('127.0.0.1', 40404), **budget):
        self.reader = CountingReader(data, **budget)
        self.out = bytearray()
        self.peer = peer
        self.writes = 0
        self.calls = []          # filled by probe_handler_class: one record per do_POST / do_GET entered

    def makefile(self, mode='rb', bufsize=-1):
        if 'r' in mode:
            return self.reader
        raise NotImplementedError(mode)

    def sendall(self, b):
        self.writes += 1
        self.out += bytes(b)

    def send(self, b):
        self.sendall(b)
        return len(b)

    def getpeername(self):
        return self.peer

    def getsockname(self):
        return ('127.0.0.1', 50505)

    def settimeout(self, t):
        pass

    def setsockopt(self, *a):
        pass

    def shutdown(self, how):
        pass

    def close(self):
        pass


class NullLogger:
    def __getattr__(self, name):
        return lambda *a, **k: None


class FakeServer:
    """The attributes DispatchingRequestHandler reads from ``self.server`` (same names as _ThreadingHTTPServer)."""

    def __init__(self, dispatcher, chunk_size=0, supported_encodings=None):
        self.dispatcher = dispatcher
        self.chunk_size = chunk_size
        self.supported_encodings = supported_encodings if supported_encodings is not None else []
        self.logger = NullLogger()
        self.server_address = ('127.0.0.1', 50505)

    @property
    def server_port(self):
        return self.server_address[1]

    # what providers / consumers expect of a ``shared_http_server``
    @property
    def base_url(self):
        return f'http://127.0.0.1:{self.server_port}/'


class ParsedResponse:
    def __init__(self):
        self.status = None
        self.reason = None
        self.headers: list = []
        self.body = b''          # after de-chunking, still content-coded
        self.complete = False
        self.error = None
        self.version = None

    def header(self, name, default=None):
        name = name.lower()
        for k, v in self.headers:
            if k.lower() == name:
                return v
        return default

    def as_dict(self):
        return {'status': self.status, 'reason': self.reason, 'headers': self.headers, 'body': self.body[:600],
                'complete': self.complete, 'error': self.error}


class _NoCloseBytesIO(io.BytesIO):
    def close(self):  # HTTPResponse closes its fp when the body is consumed; the next response follows in the same buffer
        pass


class _RespSock:
    def __init__(self, fp):
        self.fp = fp

    def makefile(self, mode='rb', bufsize=-1):
        return self.fp


def parse_responses(out: bytes, methods=None, limit=50) -> list[ParsedResponse]:
    """Parse everything the handler wrote as a sequence of HTTP/1.1 responses with http.client."""
    fp = _NoCloseBytesIO(out)
    res = []
    i = 0
    while fp.tell() < len(out) and len(res) < limit:
        method = (methods[i] if methods and i < len(methods) else 'POST')
        i += 1
        p = ParsedResponse()
        start = fp.tell()
        r = http.client.HTTPResponse(_RespSock(fp), method=method)
        try:
            r.begin()
            p.status, p.reason, p.version = r.status, r.reason, r.version
            p.headers = r.getheaders()
            framed = r.chunked or r.length is not None
            p.body = r.read()
            p.complete = True
            if not framed:
                # delimited by connection close: everything up to the end belongs to this response
                p.close_delimited = True
        except (http.client.HTTPException, ValueError, OSError) as ex:
            p.error = f'{type(ex).__name__}: {ex}'
            p.raw = out[start:start + 300]
            res.append(p)
            break
        res.append(p)
        if r.will_close:
            break
    return res


class L2Result:
    def __init__(self):
        self.escaped = None        # exception that left the handler (i.e. would reach the server loop)
        self.escaped_tb = None
        self.spin = None           # StepBudgetExceeded info
        self.out = b''
        self.responses: list[ParsedResponse] = []
        self.calls = 0
        self.eof_calls = 0
        self.unbounded_reads = 0
        self.negative_reads = 0
        self.consumed = 0
        self.trace = []
        self.max_run1 = 0
        self.handler_calls = []   # records of the do_POST / do_GET calls (probe_handler_class)


def handler_class():
    from sdc11073.httpserver.httprequesthandler import DispatchingRequestHandler
    return DispatchingRequestHandler


_PROBE = None


def probe_handler_class():
    """Subclass of the real handler that only records entry / exit / exception of do_POST and do_GET and the slice of the
    output written meanwhile (the code of do_POST / do_GET itself is the repository's)."""
    global _PROBE
    if _PROBE is not None:
        return _PROBE
    import traceback
    base = handler_class()

    class ProbeHandler(base):
        def _probe(self, name, fn):
            sock = self.connection
            rec = {'method': name, 'version': self.request_version, 'path': self.path, 'start': len(sock.out), 'exc': None, 'tb': None,
                   'spin': False, 'headers': [(k, v) for k, v in self.headers.items()]}
            sock.calls.append(rec)
            try:
                fn()
            except StepBudgetExceeded:
                rec['spin'] = True
                raise
            except Exception as ex:  # noqa: BLE001
                rec['exc'] = ex
                rec['tb'] = traceback.extract_tb(ex.__traceback__)
                raise
            finally:
                rec['end'] = len(sock.out)

        def do_POST(self):  # noqa: N802
            self._probe('POST', super().do_POST)

        def do_GET(self):  # noqa: N802
            self._probe('GET', super().do_GET)

        def log_message(self, format, *args):  # noqa: A002   stdlib error replies print to stderr
            pass
    _PROBE = ProbeHandler
    return _PROBE


class LineBudget:
    """sys.monitoring LINE events restricted to the code objects of the given modules; more than ``cap`` events between two
    reset() calls raise StepBudgetExceeded inside the code under test (a loop that spins without reading)."""

    TOOL = 4

    def __init__(self, modules, cap=3_000_000):
        import sys
        import types
        self.cap = cap
        self.n = 0
        self.mon = sys.monitoring
        self.mon.use_tool_id(self.TOOL, 'vf_line_budget')
        codes = []

        def walk(code):
            codes.append(code)
            for c in code.co_consts:
                if isinstance(c, types.CodeType):
                    walk(c)
        for mod in modules:
            for obj in vars(mod).values():
                if isinstance(obj, types.FunctionType) and obj.__module__ == mod.__name__:
                    walk(obj.__code__)
                elif isinstance(obj, type) and obj.__module__ == mod.__name__:
                    for m in vars(obj).values():
                        f = getattr(m, '__func__', m)
                        if isinstance(f, types.FunctionType):
                            walk(f.__code__)
        self.codes = codes
        self.mon.register_callback(self.TOOL, self.mon.events.LINE, self._line)
        for c in codes:
            self.mon.set_local_events(self.TOOL, c, self.mon.events.LINE)

    def _line(self, code, line):
        self.n += 1
        if self.n > self.cap:
            self.n = 0
            raise StepBudgetExceeded('line_budget', {'function': code.co_name, 'line': line, 'cap': self.cap})

    def reset(self):
        self.n = 0


def feed(server, data: bytes, methods=None, peer=('127.0.0.1', 40404), handler_cls=None, **budget) -> L2Result:
    """One TCP connection: the peer sends ``data`` and half-closes; returns what the real handler did."""
    import traceback
    sock = FakeSocket(data, peer, **budget)
    res = L2Result()
    cls = handler_cls or handler_class()
    try:
        cls(sock, peer, server)   # __init__ = setup(); handle(); finish()  - exactly what finish_request() does
    except StepBudgetExceeded as ex:
        res.spin = {'kind': ex.kind, **ex.info}
    except Exception as ex:  # noqa: BLE001   this is what socketserver's handle_error would get
        res.escaped = ex
        res.escaped_tb = traceback.format_exc()[-1800:]
    rd = sock.reader
    res.out = bytes(sock.out)
    res.calls, res.eof_calls = rd.calls, rd.eof_calls
    res.unbounded_reads, res.negative_reads = rd.unbounded_reads, rd.negative_reads
    res.consumed = rd.delivered
    res.trace = rd.trace
    res.max_run1 = rd.max_run1
    res.handler_calls = sock.calls
    res.responses = parse_responses(res.out, methods)
    return res


# ---------------------------------------------------------------------------------------------------------------
# request construction
# ---------------------------------------------------------------------------------------------------------------
def mk_request(method: str, path: str, headers, body: bytes | None = None, version='HTTP/1.1') -> bytes:
    """headers: list of (name, value) - no header is added or corrected (the caller decides the framing)."""
    lines = [f'{method} {path} {version}'.encode('latin-1')]
    for k, v in headers:
        lines.append(k.encode('latin-1') + b': ' + (v if isinstance(v, bytes) else str(v).encode('latin-1')))
    return b'\r\n'.join(lines) + b'\r\n\r\n' + (body or b'')


def ref_chunk(body: bytes, sizes, upper=False, ext=b'') -> bytes:
    """Reference chunk writer (RFC 7230 4.1): sizes = iterable of chunk sizes, cycled; optional upper-case hex / chunk-ext."""
    out = bytearray()
    pos = 0
    sizes = list(sizes) or [len(body) or 1]
    i = 0
    while pos < len(body):
        n = max(1, sizes[i % len(sizes)])
        i += 1
        part = body[pos:pos + n]
        pos += len(part)
        out += (b'%X' if upper else b'%x') % len(part) + ext + b'\r\n' + part + b'\r\n'
    out += b'0' + ext + b'\r\n\r\n'
    return bytes(out)


_CHUNK_SIZE_RE = re.compile(rb'^[0-9A-Fa-f]+$')


def check_chunked(data: bytes):
    """Strict RFC 7230 4.1 chunked-body grammar (no extensions, no trailers - the writer under test never emits them).

    Returns (payload, None) or (None, reason)."""
    pos = 0
    body = bytearray()
    n_chunks = 0
    while True:
        eol = data.find(b'\r\n', pos)
        if eol < 0:
            return None, f'no CRLF after chunk-size at offset {pos}'
        size_s = data[pos:eol]
        if not _CHUNK_SIZE_RE.match(size_s):
            return None, f'chunk-size {size_s[:20]!r} is not 1*HEXDIG'
        size = int(size_s, 16)
        pos = eol + 2
        if size == 0:
            if data[pos:pos + 2] != b'\r\n':
                return None, 'last-chunk not followed by the terminating CRLF'
            pos += 2
            if pos != len(data):
                return None, f'{len(data) - pos} bytes after the terminating CRLF'
            return bytes(body), None
        if pos + size + 2 > len(data):
            return None, f'chunk of {size} bytes at offset {pos} exceeds the data'
        body += data[pos:pos + size]
        pos += size
        if data[pos:pos + 2] != b'\r\n':
            return None, f'chunk-data not followed by CRLF at offset {pos}'
        pos += 2
        n_chunks += 1


def ref_decode(coding: str, data: bytes) -> bytes:
    """Independent decoders for the registered codings (gzip: python's gzip module; lz4: lz4.frame directly)."""
    coding = coding.lower()
    if coding == 'gzip':
        import gzip
        return gzip.decompress(data)
    if coding in ('lz4', 'x-lz4'):
        import lz4.frame
        return lz4.frame.decompress(data)
    if coding == 'deflate':
        return zlib.decompress(data)
    raise ValueError(f'no reference decoder for {coding}')


def ref_encode(coding: str, data: bytes, level=None) -> bytes:
    coding = coding.lower()
    if coding == 'gzip':
        import gzip
        return gzip.compress(data, compresslevel=6 if level is None else level, mtime=0)
    if coding in ('lz4', 'x-lz4'):
        import lz4.frame
        return lz4.frame.compress(data)
    raise ValueError(coding)
