"""C01 only: provider transactions that commit WHILE a consumer loads its MDIB (ConsumerMdib.init_mdib / reload_all).

The loop-back network calls ``before(entry)`` before a request is handed to the provider and ``after(entry)`` when the provider has produced
its answer (the consumer has not seen it yet).  For the two requests of the initial load - GetMdib and, when the provider keeps the context
states out of GetMdibResponse, GetContextStates - that gives four injection points:

    before_GetMdib            the consumer already buffers notifications; the transaction is contained in the GetMdib answer
    after_GetMdib             answered with version v, transaction v+1 commits before the consumer has read the answer
    before_GetContextStates   the consumer has loaded v, GetContextStates is answered with v+1
    after_GetContextStates    both answers are v, the transaction commits before the buffered notifications are replayed

Everything runs in the thread of the loading consumer: a transaction is injected by simply executing it inside the hook (its notifications
are delivered to all subscribed consumers before the hook returns), so the schedule is exact and reproducible - no sleeping, no threads.
"""
from __future__ import annotations

import gzip

from lxml import etree

S12 = 'http://www.w3.org/2003/05/soap-envelope'
POINTS = ('before_GetMdib', 'after_GetMdib', 'before_GetContextStates', 'after_GetContextStates')


def decoded_body(entry) -> bytes:
    body = entry.raw_body
    enc = entry.headers.get('Content-Encoding')
    if enc == 'gzip':
        body = gzip.decompress(body)
    elif enc:
        from sdc11073.httpserver.compression import CompressionHandler
        body = CompressionHandler.decompress_payload(enc, body)
    return body


def request_name(entry):
    """local name of the first child of the SOAP body of a POST, None if there is none"""
    if entry.method != 'POST' or not entry.raw_body:
        return None
    try:
        root = etree.fromstring(decoded_body(entry))
        b = root.find(f'{{{S12}}}Body')
        return etree.QName(b[0]).localname if b is not None and len(b) else None
    except Exception:  # noqa: BLE001
        return None


class LoadInjector:
    """``arm(plan, run)``: plan = {point: n}; at each point ``run(point, k)`` is called n times (k = 0..n-1) - it executes one provider
    transaction.  ``fired`` lists (point, mdib version before, mdib version after) of everything that was injected since ``arm``."""

    def __init__(self, provider_netloc: str, mdib):
        self.provider_netloc = provider_netloc
        self.mdib = mdib
        self.plan = None
        self.run = None
        self.fired = []
        self.seen = []   # requests of the load that passed the hooks, in order
        self._busy = False

    def arm(self, plan: dict, run):
        self.plan, self.run, self.fired, self.seen = dict(plan), run, [], []

    def disarm(self):
        self.plan = self.run = None

    def _at(self, when, entry):
        if self.plan is None or self._busy or entry.netloc != self.provider_netloc:
            return
        name = request_name(entry)
        if name not in ('GetMdib', 'GetContextStates'):
            return
        point = f'{when}_{name}'
        if when == 'before':
            self.seen.append(name)
        n = self.plan.get(point, 0)
        self._busy = True
        try:
            for k in range(n):
                v0 = self.mdib.mdib_version
                self.run(point, k)
                self.fired.append((point, v0, self.mdib.mdib_version))
        finally:
            self._busy = False

    def before(self, entry):
        self._at('before', entry)

    def after(self, entry):
        self._at('after', entry)
