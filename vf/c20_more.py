"""C20 round 4 - directed inputs that the seeded generators of vf.props.c20 reach too rarely or never (pure generators, no oracle).

states: one handle of every descriptor NODETYPE of the MDIB (so that every kind of descriptor is asked at both services in every run),
        very long handle lists (every descriptor / every context state / everything twice), handles of REMOVED context states.
texts:  boundary values of every filter parameter of GetLocalizedText (Version 0 / 2**64-1 / highest+1, NumberOfLines 0 / negative /
        larger than every text / 10**20, TextWidth smallest / largest / all six, Lang and Ref repeated / unknown / empty lists) and
        stores around them (Version 0 texts, empty texts, trailing paragraph breaks, one text in all six widths).
"""
from __future__ import annotations

from sdc11073.xml_types import pm_types

WIDTHS = list(pm_types.LocalizedTextWidth)
U64 = 2 ** 64 - 1   # pm:ReferencedVersion = pm:VersionCounter = xsd:unsignedLong


# ------------------------------------------------------------------------------------------------
# states
# ------------------------------------------------------------------------------------------------
def short_type(clark: str) -> str:
    return clark.rsplit('}', 1)[-1].replace('Descriptor', '')


def type_sweep(s: dict, rng) -> list:
    """[(label, [handle])] - one (random) descriptor handle of every NODETYPE of the snapshot"""
    by_type = {}
    for h, c in s['descr'].items():
        by_type.setdefault(short_type(c[3][1]), []).append(h)
    return [(f'type.{t}', [rng.choice(sorted(hs))]) for t, hs in sorted(by_type.items())]


def big_lists(s: dict, rng) -> list:
    descr = sorted(s['descr'])
    ctx = sorted(s['ctx'])
    out = [('big.all_descr', list(descr))]
    if ctx:
        out.append(('big.all_ctx_states', list(ctx)))
    both = descr + ctx
    twice = both + both
    rng.shuffle(twice)
    out.append(('big.everything_twice', twice))
    out.append(('big.unknown_x200+one', [f'nope.{i}' for i in range(200)] + [rng.choice(both)]))
    return out


def removed_ctx_lists(s: dict, removed: list, rng) -> list:
    """handle lists around context state handles that have been removed from the MDIB (and are not in use again)"""
    gone = sorted(h for h in set(removed) if h not in s['ctx'] and h not in s['descr'])
    if not gone:
        return []
    h = rng.choice(gone)
    out = [('removed_ctx_state', [h]), ('removed_ctx_state_x2', [h, h])]
    if s['ctx']:
        out.append(('removed_ctx_state+live', [h, rng.choice(sorted(s['ctx']))]))
    out.append(('removed_ctx_state+descr', [rng.choice(sorted(s['descr'])), h]))
    return out


# ------------------------------------------------------------------------------------------------
# texts
# ------------------------------------------------------------------------------------------------
BOUNDARY_STYLES = ['zero', 'zero_and_none', 'zero_one', 'u64', 'all_widths', 'no_lang', 'no_lang_only']


def boundary_store(rng, style: str) -> list:
    LT = pm_types.LocalizedText
    if style in ('no_lang', 'no_lang_only'):
        # LocalizedText.Lang is optional.  no_lang: r1 translated + Lang-less in both versions, r2 ONLY Lang-less, ref.3 Lang-less only in
        # the latest version (translated in the old one).  no_lang_only: not one stored text has a language.
        texts = []
        for v in (1, 4):
            for ref in ('r1', 'r2', 'ref.3'):
                for n in range(1, 4):
                    texts.append(LT('\n'.join([f'no language {ref} v{v}'] * n), lang=None, ref=ref, version=v, text_width=rng.choice([None] + WIDTHS)))
                if style == 'no_lang' and (ref == 'r1' or (ref == 'ref.3' and v == 1)):
                    for lang in ('en', 'de'):
                        texts.append(LT(f'{lang} {ref} v{v}\nsecond', lang=lang, ref=ref, version=v, text_width=rng.choice([None] + WIDTHS)))
        return texts
    versions = {'zero': [0], 'zero_and_none': [None, 0], 'zero_one': [0, 1], 'u64': [1, U64], 'all_widths': [0, 3]}[style]
    bodies = ['', 'one', 'one\ntwo', 'one\ntwo\n', 'a\nb\nc\nd\ne', '\n', 'x. y! z?']
    texts = []
    refs = ['r1', 'r2', 'ref.3']
    langs = ['en', 'de', 'fr']
    for ref in refs:
        for lang in langs:
            for v in versions:
                if style == 'all_widths':
                    for w in [None] + WIDTHS:
                        texts.append(LT(f'{ref} {lang} v{v} {w.value if w else "-"}' + '\nmore' * rng.randrange(0, 3), lang=lang, ref=ref, version=v,
                                        text_width=w))
                    continue
                for body in rng.sample(bodies, 3):
                    # the wording carries the identity (texts are compared by content + attributes)
                    texts.append(LT(body if body in ('', '\n') and (ref, lang) == ('r1', 'en') else f'{body}|{ref}{lang}{v}',
                                    lang=lang, ref=ref, version=v, text_width=rng.choice([None] + WIDTHS)))
    if style == 'zero_one':   # a language that only exists in the superseded version 0
        texts.append(LT('old only', lang='it', ref='r1', version=0))
    return texts


def boundary_requests(store: list) -> list:
    """directed requests around the limits of every parameter; the values do not depend on a random source"""
    versions = sorted({t.Version for t in store if t.Version is not None})
    top = versions[-1] if versions else 0
    W = pm_types.LocalizedTextWidth
    reqs = [
        {'version': 0}, {'version': U64}, {'version': min(top + 1, U64)}, {'version': top},
        {'number_of_lines': [0]}, {'number_of_lines': [-1]}, {'number_of_lines': [1]}, {'number_of_lines': [10 ** 20]},
        {'number_of_lines': [0, 1]}, {'number_of_lines': [0], 'version': top}, {'number_of_lines': [0], 'text_widths': [W.XXL]},
        {'number_of_lines': [2, 2]},
        {'text_widths': [W.XS]}, {'text_widths': [W.XXL]}, {'text_widths': list(W)}, {'text_widths': list(W)[::-1]},
        {'text_widths': [W.XS], 'number_of_lines': [1]}, {'text_widths': [W.XS, W.XS], 'version': 0},
        {'text_widths': list(W), 'number_of_lines': [0, 1, 2, 3, 4, 5, 6], 'version': top},
        {'langs': ['en', 'en']}, {'langs': ['EN']}, {'langs': ['e']}, {'langs': ['en', 'de', 'fr', 'it', 'xx']},
        {'refs': ['r1', 'r1', 'r1']}, {'refs': ['r']}, {'refs': ['R1']}, {'refs': ['nope']}, {'refs': ['nope'], 'version': 0},
        {'refs': [], 'langs': []}, {'refs': [], 'langs': [], 'text_widths': [], 'number_of_lines': []},
        {'refs': ['r1'], 'langs': []}, {'refs': [], 'version': 0},
        {'refs': ['r1'], 'version': 0, 'langs': ['en'], 'text_widths': [W.XS], 'number_of_lines': [0]},
        {'refs': ['r1'], 'version': top, 'langs': ['en'], 'text_widths': [W.XXL], 'number_of_lines': [10 ** 20]},
    ]
    return reqs
