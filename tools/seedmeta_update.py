#!/usr/bin/env python3
"""fills confirmed.full_test_suite_with_patch of seeded/*/meta.json from /tmp/seed/results/<P>_<k>.txt (written by tools/seedqueue.sh)"""
import glob, json, os
n = pending = 0
for f in sorted(glob.glob('/verif/seeded/*/meta.json')):
    m = json.load(open(f))
    P, k = m['id'].split('-')
    res = f'/tmp/seed/results/{P}_{k}.txt'
    cur = m.setdefault('confirmed', {}).get('full_test_suite_with_patch', 'pending')
    if os.path.exists(res):
        new = open(res).read().strip()
        if new and new != cur:
            m['confirmed']['full_test_suite_with_patch'] = new
            json.dump(m, open(f, 'w'), indent=1)
            n += 1
    if m['confirmed'].get('full_test_suite_with_patch', 'pending') in ('pending', ''):
        pending += 1
print('updated', n, 'pending', pending)
