#!/usr/bin/env python3
"""Kill-list runner: applies small breaks of the anchored mechanisms to scratch worktrees of /repo (outside /repo and /verif,
removed afterwards) and runs the quick check of the property against them.  Expected: exit 1 (VIOLATION).

usage: tools/kill.py [name-substring ...]        results -> stdout (+ /verif/scratch/kill_results.json)
"""
import concurrent.futures
import json
import os
import subprocess
import sys
import tempfile

VERIF = os.path.dirname(os.path.dirname(os.path.abspath(__file__)))
S = 'src/sdc11073/'
M = [
    # (name, check, file, old, new)
    ('c01.no_delete', 'C01', S + 'mdib/consumermdib.py', "                            self.rm_descriptor_by_handle(descriptor_container.Handle)\n                            deleted_descriptor_by_handle", "                            deleted_descriptor_by_handle"),
    ('c01.no_mdib_version_update', 'C01', S + 'mdib/consumermdib.py', "        if mdib_version_group.mdib_version != self.mdib_version:\n            self.mdib_version = mdib_version_group.mdib_version", "        if False:\n            self.mdib_version = mdib_version_group.mdib_version"),
    ('c01.omit_component_report', 'C01', S + 'provider/providerimpl.py', "        states = transaction_result.comp_updates\n        if len(states) > 0:", "        states = transaction_result.comp_updates\n        if len(states) > 1:"),
    ('c01.context_key_descriptor', 'C01', S + 'mdib/consumermdib.py', "states_by_handle[old_state_container.Handle] = old_state_container", "states_by_handle[old_state_container.DescriptorHandle] = old_state_container"),
    ('c02.no_state_version_increment', 'C02', S + 'mdib/transactions.py', "        copied_state = mdib_state.mk_copy()\n        copied_state.increment_state_version()\n        self._state_updates[descriptor_handle] = TransactionItem(mdib_state, copied_state)", "        copied_state = mdib_state.mk_copy()\n        self._state_updates[descriptor_handle] = TransactionItem(mdib_state, copied_state)"),
    ('c02.no_save_version', 'C02', S + 'mdib/mdibbase.py', "    def remove_objects_no_lock(self, objects: list[Any]):\n        apply_map(self._save_version, [obj for obj in objects if obj is not None])", "    def remove_objects_no_lock(self, objects: list[Any]):"),
    ('c02.no_parent_increment', 'C02', S + 'mdib/transactions.py', "            parent_descriptor_container.increment_descriptor_version()\n", "            pass\n"),
    ('c02.version_in_empty_transaction', 'C02', S + 'mdib/transactions.py', "        proc = TransactionResult()\n        if self._state_updates:\n            self._mdib.mdib_version = self.new_mdib_version\n            updates = self._handle_state_updates(self._state_updates)\n            proc.metric_updates.extend(updates)", "        proc = TransactionResult()\n        self._mdib.mdib_version = self.new_mdib_version\n        if self._state_updates:\n            updates = self._handle_state_updates(self._state_updates)\n            proc.metric_updates.extend(updates)"),
    ('c02.stale_descriptor_container', 'C02', S + 'mdib/transactions.py', "                tr_item.new.descriptor_container = descriptor_container\n", ""),
    ('c03.shallow_mk_copy', 'C03', S + 'mdib/containerbase.py', "            if value is not None:\n                setattr(copied, prop_name, copy.deepcopy(value))", "            if value is not None:\n                setattr(copied, prop_name, copy.copy(value))"),
    ('c03.entity_no_deepcopy', 'C03', S + 'mdib/mdibbase.py', "        return Entity(self._mdib, copy.deepcopy(descriptor), copy.deepcopy(state))", "        return Entity(self._mdib, copy.deepcopy(descriptor), state.mk_copy() if False else copy.copy(state))"),
    ('c03.table_gets_user_object', 'C03', S + 'mdib/transactions.py', "            table.add_object_no_lock(transaction_item.new.mk_copy(copy_node=False))", "            table.add_object_no_lock(transaction_item.new)"),
    ('c03.add_state_accepts_duplicate', 'C03', S + 'mdib/transactions.py', "        if self._mdib.context_states.handle.get_one(state_container.Handle, allow_none=True) is not None:\n            msg = f'ContextState with handle={state_container.Handle} already exists'\n            raise ValueError(msg)\n", ""),
    ('c03.swallow_precommit', 'C03', S + 'mdib/providermdib.py', "                if callable(self.pre_commit_handler):\n                    self.pre_commit_handler(self, self.current_transaction)", "                if callable(self.pre_commit_handler):\n                    try:\n                        self.pre_commit_handler(self, self.current_transaction)\n                    except Exception:  # noqa: BLE001\n                        pass"),
    ('c04.omit_waveform', 'C04', S + 'provider/providerimpl.py', "        states = transaction_result.rt_updates\n        if len(states) > 0:\n            port_type_impl = self.hosted_services.waveform_service\n            port_type_impl.send_realtime_samples_report(states, mdib_version_group)", "        states = transaction_result.rt_updates"),
    ('c04.periodic_no_copy', 'C04', S + 'provider/periodicreports.py', "        copied_updates = [s.mk_copy() for s in state_updates]", "        copied_updates = list(state_updates)"),
    ('c04.version_read_late', 'C04', S + 'provider/providerimpl.py', "        states = transaction_result.op_updates\n        if len(states) > 0:\n            port_type_impl = self.hosted_services.state_event_service\n            port_type_impl.send_episodic_operational_state_report(states, mdib_version_group)", "        states = transaction_result.op_updates\n        if len(states) > 0:\n            port_type_impl = self.hosted_services.state_event_service\n            import dataclasses as _dc\n            port_type_impl.send_episodic_operational_state_report(states, _dc.replace(mdib_version_group, mdib_version=mdib_version_group.mdib_version - 1))"),
    ('c04.descr_updated_twice', 'C04', S + 'mdib/transactions.py', "            proc.descr_updated = [descr.mk_copy() for descr in final_descriptors.values() if descr is not None]\n", ""),
    ('c06.gate_gt', 'C06', S + 'mdib/consumermdib.py', "        return new_mdib_version >= self.mdib_version", "        return new_mdib_version > self.mdib_version"),
    ('c06.gate_removed', 'C06', S + 'mdib/consumermdib.py', "        return new_mdib_version >= self.mdib_version", "        return True"),
    ('c06.accept_older_state', 'C06', S + 'mdib/consumermdib.py', "        if diff < 0:\n            # the new version is older, ignore new state but log an error", "        if diff < 0:\n            return True\n        if diff < -10**9:\n            # the new version is older, ignore new state but log an error"),
    ('c06.watchdog_not_invalid', 'C06', S + 'mdib/consumermdib.py', "            self._state = ConsumerMdibState.invalid\n\n            def _set_observable():", "            def _set_observable():"),
    ('c06.buffer_replay_lt', 'C06', S + 'mdib/consumermdib.py', "                    if buffered_report.mdib_version_group.mdib_version <= self.mdib_version:", "                    if buffered_report.mdib_version_group.mdib_version < self.mdib_version - 3:"),
    ('c07.getmdstate_version_outside', 'C07', S + 'provider/porttypes/getserviceimpl.py', "        response.set_mdib_version_group(mdib_version_group)\n        created_message = factory", "        response.set_mdib_version_group(self._mdib.mdib_version_group)\n        created_message = factory"),
    ('c07.getmdib_version_after', 'C07', S + 'mdib/mdibbase.py', "        with self.mdib_lock:\n            return self._reconstruct_mdib(add_context_states=True), self.mdib_version_group", "        with self.mdib_lock:\n            node = self._reconstruct_mdib(add_context_states=True)\n        return node, self.mdib_version_group"),
    ('c07.description_no_lock', 'C07', S + 'provider/porttypes/getserviceimpl.py', "        with mdib.mdib_lock:  # handle check, content and version must belong to the same mdib version\n", "        import contextlib\n        with contextlib.nullcontext():\n"),
    ('c11.rm_key_keeps_empty_bucket', 'C11', S + 'multikey.py', "            if len(obj_list) == 0:\n                del self[key]", "            if len(obj_list) == 0:\n                pass"),
    ('c11.update_without_rm', 'C11', S + 'multikey.py', "        with self._lock:\n            self._rm_indices(obj)\n            self._mk_indices(obj)\n\n    def update_object_no_lock", "        with self._lock:\n            self._mk_indices(obj)\n\n    def update_object_no_lock"),
    ('c11.no_rollback', 'C11', S + 'multikey.py', "            self._objects.discard(obj)\n", ""),
    ('c15.repeat_minus_one', 'C15', S + 'wsdiscovery/networkingthread.py', "        for i in range(delay_params.repeat):", "        for i in range(delay_params.repeat - 1):"),
    ('c15.cap_removed', 'C15', S + 'wsdiscovery/networkingthread.py', "            delta_t = min(delta_t * 2, delay_params.upper_delay_ms / 1000.0)  # delta_t is in seconds", "            delta_t = delta_t * 2"),
    ('c15.bounds_swapped', 'C15', S + 'wsdiscovery/networkingthread.py', "random.randrange(delay_params.min_delay_ms, delay_params.max_delay_ms)", "random.randrange(delay_params.min_delay_ms, delay_params.upper_delay_ms)"),
    ('c15.own_id_not_registered', 'C15', S + 'wsdiscovery/networkingthread.py', "        self._known_message_ids.appendleft(msg.p_msg.header_info_block.MessageID)\n        self._repeated_enqueue_msg", "        self._repeated_enqueue_msg"),
    ('c18.truncate', 'C18', S + 'xml_types/dataconverters.py', "return str(int(round(py_value * 1000)))", "return str(int(py_value * 1000))"),
    ('c18.exp_guard_dropped', 'C18', S + 'xml_types/dataconverters.py', "        if 'E' in xml_value or 'e' in xml_value:\n            # no exp form allowed in xml; fixed-point format keeps the exact value (e.g. 1E-7 -> 0.0000001)\n            return format(py_value, 'f')", "        if 'E+' in xml_value:\n            return format(py_value, 'f')"),
    ('c18.duration_divisor', 'C18', S + 'xml_types/isoduration.py', "    hours, minutes = divmod(minutes, 60)", "    hours, minutes = divmod(minutes, 100)"),
    ('c19.urlschema_http', 'C19', S + 'provider/providerimpl.py', "            self._urlschema = 'https'", "            self._urlschema = 'http'"),
    ('c19.verify_mode_removed', 'C19', S + 'certloader.py', "        server_ssl_context.verify_mode = ssl.CERT_REQUIRED\n", ""),
    ('c19.provider_client_no_ctx', 'C19', S + 'provider/providerimpl.py', "            ssl_context=self._ssl_context_container.client_context if self._ssl_context_container else None,", "            ssl_context=None,"),
    ('c19.consumer_use_ssl', 'C19', S + 'consumer/consumerimpl.py', "        _ssl_context = self._ssl_context_container.client_context if use_ssl else None", "        _ssl_context = self._ssl_context_container.client_context if (use_ssl and self.is_ssl_connection is None) else None"),
]


def run_one(m):
    name, check, path, old, new = m
    wt = tempfile.mkdtemp(prefix=f'kill_{name}_', dir='/tmp')
    os.rmdir(wt)
    try:
        subprocess.run(['git', '-C', '/repo', 'worktree', 'add', '-q', '--detach', wt, 'HEAD'], check=True, capture_output=True)
        full = os.path.join(wt, path)
        s = open(full, newline='').read()
        nl = '\r\n' if '\r\n' in s else '\n'
        o, n = old.replace('\n', nl), new.replace('\n', nl)
        if s.count(o) != 1:
            return name, check, 'PATTERN-NOT-FOUND(%d)' % s.count(o), ''
        open(full, 'w', newline='').write(s.replace(o, n))
        env = dict(os.environ, VERIF_REPO=wt, VERIF_NO_EVIDENCE='1')
        r = subprocess.run([os.path.join(VERIF, 'check'), check, '--tier', 'quick'], capture_output=True, text=True, env=env, cwd=VERIF, timeout=1500)
        keys = sorted({l.split('key=')[1].split(' ')[0] for l in r.stdout.splitlines() if l.strip().startswith('key=')})
        verdict = {0: 'MISSED', 1: 'CAUGHT', 2: 'INCONCLUSIVE'}.get(r.returncode, f'rc={r.returncode}')
        return name, check, verdict, ','.join(keys)[:300]
    except Exception as ex:  # noqa: BLE001
        return name, check, 'ERROR', repr(ex)[:200]
    finally:
        subprocess.run(['git', '-C', '/repo', 'worktree', 'remove', '--force', wt], capture_output=True)


def main():
    sel = [m for m in M if not sys.argv[1:] or any(a in m[0] for a in sys.argv[1:])]
    results = []
    with concurrent.futures.ThreadPoolExecutor(max_workers=int(os.environ.get('KILL_PAR', '3'))) as ex:
        for res in ex.map(run_one, sel):
            print('%-34s %-4s %-14s %s' % res, flush=True)
            results.append(res)
    os.makedirs(os.path.join(VERIF, 'scratch'), exist_ok=True)
    json.dump(results, open(os.path.join(VERIF, 'scratch', 'kill_results.json'), 'w'), indent=1)


if __name__ == '__main__':
    main()
