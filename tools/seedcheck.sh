#!/bin/bash
# tools/seedcheck.sh <PROP> <k> [checks...] : validate a seeded defect from /tmp/seed/<PROP>_work (patch<k>.diff, demo<k>.py) and run checks against it
P=$1; K=$2; shift 2; CHECKS=${@:-$P}
W=${SEEDROOT:-/tmp/seed}/${P}_work; wt=/tmp/sc_${P}_${K}_$$
git -C /repo worktree remove --force $wt 2>/dev/null
git -C /repo worktree add -q --detach $wt HEAD || exit 3
cd $wt
export PYTHONPATH=$wt/src:$wt
echo "--- demo on clean tree"; timeout 300 /venv/bin/python $W/demo$K.py 2>&1 | tail -2; echo "rc=${PIPESTATUS[0]}"
git apply $W/patch$K.diff || { echo "PATCH DOES NOT APPLY"; git -C /repo worktree remove --force $wt; exit 4; }
echo "--- demo on patched tree"; timeout 300 /venv/bin/python $W/demo$K.py 2>&1 | tail -2; echo "rc=${PIPESTATUS[0]}"
unset PYTHONPATH
for c in $CHECKS; do
  echo "--- check $c against patched tree"
  (cd /verif; VERIF_REPO=$wt VERIF_NO_EVIDENCE=1 timeout 1500 ./check $c --tier quick 2>&1 | grep "VIOLATION\|key=\|INCONCLUSIVE\|^\[" | cut -c1-260 | head -12; echo "check_rc=${PIPESTATUS[0]}")
done
if [ "$FULLTESTS" = "1" ]; then
  echo "--- full test suite on patched tree"
  cd $wt; export PYTHONPATH=$wt/src:$wt
  /venv/bin/python -m pytest -q -p no:cacheprovider --timeout=900 > /tmp/sc_${P}_$K.tests.log 2>&1; echo "tests_rc=$?"; tail -1 /tmp/sc_${P}_$K.tests.log | cut -c1-120
fi
cd /; git -C /repo worktree remove --force $wt
