#!/bin/bash
# usage: sweep.sh tier seed
tier=$1; seed=$2
cd /verif
for c in C01 C02 C03 C04 C05 C06 C07 C08 C09 C10 C11 C12 C13 C14 C15 C16 C17 C18 C19 C20; do
  s=$(date +%s)
  VERIF_SEED=$seed ./check $c --tier $tier > /tmp/sweep_${tier}_${seed}_$c.log 2>&1; rc=$?
  e=$(date +%s)
  echo "$c rc=$rc t=$((e-s))s $(grep -c 'VIOLATION' /tmp/sweep_${tier}_${seed}_$c.log) viol $(grep -c KNOWN-FINDING /tmp/sweep_${tier}_${seed}_$c.log) kf"
done
