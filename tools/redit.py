#!/usr/bin/env python3
"""tools/redit.py <file> : reads python code from stdin defining OLD and NEW strings; replaces once, preserving line endings."""
import sys
path = sys.argv[1]
ns = {}
exec(sys.stdin.read(), ns)
s = open(path, newline='').read()
nl = '\r\n' if '\r\n' in s else '\n'
pairs = ns.get('PAIRS') or [(ns['OLD'], ns['NEW'])]
for old, new in pairs:
    old, new = old.replace('\n', nl), new.replace('\n', nl)
    assert s.count(old) == 1, f'expected exactly one occurrence, found {s.count(old)}: {old[:80]!r}'
    s = s.replace(old, new)
open(path, 'w', newline='').write(s)
print('edited', path)
