#!/bin/bash
# tools/seedqueue_par.sh <worker> <nworkers>: like seedqueue.sh, but worker w takes the queue lines n with n % nworkers == w and does not wait for other pytest runs
W=$1; N=$2
mkdir -p /tmp/seed/results; touch /tmp/seed/queue.txt
n=0
while true; do
  total=$(wc -l < /tmp/seed/queue.txt)
  if [ $n -ge $total ]; then sleep 30; continue; fi
  n=$((n+1))
  [ $((n % N)) -ne $W ] && continue
  line=$(sed -n "${n}p" /tmp/seed/queue.txt); set -- $line; P=$1; K=$2; ROOT=${3:-/tmp/seed}; RK=${4:-$K}
  [ "$P" = "STOP" ] && exit 0
  [ -f /tmp/seed/results/${P}_$RK.txt ] && continue
  if [ "$P" = "HEAD" ]; then
    sha=$(git -C /repo log --format=%h -1)
    [ -f /tmp/rt_$sha.log ] && grep -q "passed" /tmp/rt_$sha.log && { echo "done (already run for $sha)" > /tmp/seed/results/HEAD_$K.txt; continue; }
    /verif/tools/run_repo_tests.sh > /dev/null 2>&1; echo "done $sha" > /tmp/seed/results/HEAD_$K.txt; continue
  fi
  wt=/tmp/sq_${P}_${RK}_$W; git -C /repo worktree remove --force $wt 2>/dev/null
  git -C /repo worktree add -q --detach $wt HEAD || continue
  patch=/verif/seeded/${P}-${RK}/patch.diff; [ -f $patch ] || patch=$ROOT/${P}_work/patch$K.diff
  (cd $wt && git apply $patch && PYTHONPATH=$wt/src:$wt /venv/bin/python -m pytest -q -p no:cacheprovider --timeout=900 > /tmp/seed/results/${P}_$RK.log 2>&1; echo "rc=$? $(tail -1 /tmp/seed/results/${P}_$RK.log | cut -c1-100)" > /tmp/seed/results/${P}_$RK.txt)
  git -C /repo worktree remove --force $wt
done
