#!/usr/bin/env python3
"""tools/seedstore_round.py <round-dir> <offset> <PROP>...: store every validated seed of a round (demo rc 0 clean / rc 1 patched) in /verif/seeded/
with caught_by taken from <PROP>_check.txt (keys of the own check) or MISSED."""
import os, re, subprocess, sys
R, OFF = sys.argv[1], int(sys.argv[2])
for P in sys.argv[3:]:
    txt = open(f'{R}/{P}_check.txt').read()
    for block in txt.split('===== ')[1:]:
        k = int(block.split()[2])
        rcs = re.findall(r'^rc=(\d+)', block, re.M)
        crc = re.findall(r'^check_rc=(\d+)', block, re.M)
        keys = []
        for key in re.findall(r'key=(\S+)', block):
            if key not in keys:
                keys.append(key)
        if rcs[:2] != ['0', '1']:
            print(f'{P} {k}: demo rcs {rcs} - NOT stored')
            continue
        caught = f'{P}:' + ','.join(keys[:3]) if crc and crc[0] == '1' else 'MISSED'
        env = dict(os.environ, SEEDROOT=R, SEEDOFFSET=str(OFF))
        subprocess.run(['python3', '/verif/tools/seedstore.py', P, str(k), caught, 'round 4' + ('' if caught != 'MISSED' else ': missed at first')], env=env, check=True)
