#!/bin/bash
# tools/seedsum.sh <round-dir> <PROP>: short summary of <PROP>_check.txt
f=$1/$2_check.txt
grep -E "^=====|^rc=|check_rc=|key=|PATCH DOES NOT|INCONCLUSIVE" $f | cut -c1-230
