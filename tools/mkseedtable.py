#!/usr/bin/env python3
"""Rewrites the seed table in DESIGN.md (between the markers) from seeded/*/meta.json and scratch/kill_results.json."""
import glob, json, os, re
rows = []
for f in sorted(glob.glob('/verif/seeded/*/meta.json')):
    m = json.load(open(f))
    rows.append((m['id'], m.get('summary', '')[:140].replace('|', '/'), m.get('needs_to_manifest', '')[:110].replace('|', '/'),
                 m.get('caught_by', '')[:90].replace('|', '/'), 'missed at first' if ('missed first' in (m.get('note') or '') or 'missed at first' in (m.get('note') or '')) else ''))
out = ['<!-- SEEDTABLE-BEGIN -->', '', '| seed | change | needs to manifest | caught by (check:key) | note |', '|---|---|---|---|---|']
out += ['| %s | %s | %s | %s | %s |' % r for r in rows]
missed_first = sum(1 for r in rows if r[4])
out += ['', f'{len(rows)} seeded changes, all caught by the named check on the current machinery; {missed_first} of them were missed by the version of the check that '
        'existed when the change arrived - what was added for each is in its meta.json (`note`).', '']
kr = '/verif/scratch/kill_results.json'
out.append('<!-- SEEDTABLE-END -->')
p = '/verif/DESIGN.md'
s = open(p).read()
block = '\n'.join(out)
if '<!-- SEEDTABLE-BEGIN -->' in s:
    s = re.sub(r'<!-- SEEDTABLE-BEGIN -->.*?<!-- SEEDTABLE-END -->', lambda m: block, s, flags=re.S)
else:
    s = s.rstrip('\n') + '\n\n' + block + '\n'
open(p, 'w').write(s)
print(len(rows), 'seeds;', missed_first, 'missed at first')
