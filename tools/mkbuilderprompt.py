#!/usr/bin/env python3
"""tools/mkbuilderprompt.py <PROP> [hint text file]: prints the task text for a builder sub-agent (round 4+) of one property."""
import glob, json, sys
P = sys.argv[1]
hints = open(sys.argv[2]).read() if len(sys.argv) > 2 else ''
missed, caught = [], []
for f in sorted(glob.glob(f'/verif/seeded/{P}-*/meta.json')):
    m = json.load(open(f))
    (missed if m.get('caught_by') == 'MISSED' else caught).append((m['id'], m.get('summary', '')[:300], m.get('needs_to_manifest', '')[:400]))
print(f"""You deepen the runtime-monitoring check of property {P} of Draegerwerk/sdc11073.  Your complete instructions are in
/verif/tools/BUILDER_BRIEF.md (read it first; it points to /verif/tools/AGENT_BRIEF.md with the hard rules).  Property id: {P}; check module
/verif/vf/props/{P.lower()}.py.

Missed seeds (independent regressions of /repo that break {P}, pass the whole test suite, and that `./check {P} --tier quick` does NOT report yet;
each directory has patch.diff, demo.py - exits 1 with the patch, 0 without: `PYTHONPATH=<wt>/src:<wt> /venv/bin/python demo.py` -, meta.json):
""" + ('\n'.join(f'* /verif/seeded/{i}: {s}\n  needs: {n}' for i, s, n in missed) or '* (none this round)') + f"""

Start with the audit of BUILDER_BRIEF section 1, then make the check catch the CLASS of behaviour each missed seed breaks (directed case + widened
generator; never special-case the patch), then close the most valuable other gaps of your audit.  First convince yourself from the property statement
that each missed seed really violates it; if one does not, say why and leave it.
{hints}
Constraints that matter today: many agents share the 16 cores - use `JOBS=2` for tools/seedregress.py, do not run more than one check at a time,
never tune anything to wall-clock.  Quick tier must stay <= ~60 s on an idle machine (it currently has head-room; check the `wall=` of a run against
the load you see in `uptime`).  Do not edit modules shared with other properties (vf/core.py, vf/main.py, vf/mdibops.py, vf/history.py, vf/loopback.py,
vf/mdibharness.py, vf/realworld.py, vf/httpl2.py ...) - if you need a change there, put new code into a module of your own (vf/{P.lower()}_*.py) or describe the
change in your report.  Do not edit /verif/seeded, MANIFEST.json, known_findings.json, DESIGN.md (the lead does, from your report).
Final report: as BUILDER_BRIEF section 4, plus for every missed seed the witness key that now reports it (exact key), plus any behaviour of the UNCHANGED
/repo that you believe violates the statement (with a <= 15 line reproduction and a proposed minimal fix diff in /verif/scratch/).""")
