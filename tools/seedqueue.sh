#!/bin/bash
# sequential full-test-suite runs for seeded defects: reads "P K" lines appended to /tmp/seed/queue.txt, writes /tmp/seed/results/P_K.txt
mkdir -p /tmp/seed/results; touch /tmp/seed/queue.txt
n=0
while true; do
  total=$(wc -l < /tmp/seed/queue.txt)
  if [ $n -ge $total ]; then sleep 20; continue; fi
  n=$((n+1)); line=$(sed -n "${n}p" /tmp/seed/queue.txt); set -- $line; P=$1; K=$2; ROOT=${3:-/tmp/seed}; RK=${4:-$K}
  [ "$P" = "STOP" ] && exit 0
  [ -f /tmp/seed/results/${P}_$RK.txt ] && continue
  if [ "$P" = "HEAD" ]; then while pgrep -f "pytest -ra -q|pytest -q -p no:cacheprovider --timeout" >/dev/null; do sleep 15; done; /verif/tools/run_repo_tests.sh > /dev/null 2>&1; echo done > /tmp/seed/results/HEAD_$K.txt; continue; fi
  while pgrep -f "pytest -ra -q\|pytest -q -p no:cacheprovider --timeout" >/dev/null; do sleep 15; done
  wt=/tmp/sq_${P}_$K; git -C /repo worktree remove --force $wt 2>/dev/null
  git -C /repo worktree add -q --detach $wt HEAD
  (cd $wt && git apply $ROOT/${P}_work/patch$K.diff && PYTHONPATH=$wt/src:$wt /venv/bin/python -m pytest -q -p no:cacheprovider --timeout=900 > /tmp/seed/results/${P}_$RK.log 2>&1; echo "rc=$? $(tail -1 /tmp/seed/results/${P}_$RK.log | cut -c1-100)" > /tmp/seed/results/${P}_$RK.txt)
  git -C /repo worktree remove --force $wt
done
