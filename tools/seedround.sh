#!/bin/bash
# tools/seedround.sh <round-dir> <offset> <PROP> [extra checks...]: validate all delivered seeds of one property of a round (demo clean / patched, own check quick),
# and queue the whole test suite for each (results /tmp/seed/results/<PROP>_<k+offset>.txt); output -> <round-dir>/<PROP>_check.txt
R=$1; OFF=$2; P=$3; shift 3
out=$R/${P}_check.txt; : > $out
for k in 1 2 3 4; do
  [ -f $R/${P}_work/patch$k.diff ] || continue
  echo "===== $P seed $k (stored as $P-$((k+OFF)))" >> $out
  python3 -c "import json;m=json.load(open('$R/${P}_work/meta$k.json'));print('summary:',m.get('summary'));print('needs:',m.get('needs_to_manifest'))" >> $out 2>&1
  SEEDROOT=$R /verif/tools/seedcheck.sh $P $k $P "$@" >> $out 2>&1
  echo "$P $k $R $((k+OFF))" >> /tmp/seed/queue.txt
done
echo done >> $out
