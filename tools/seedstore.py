#!/usr/bin/env python3
"""tools/seedstore.py <PROP> <k> <caught-by: e.g. "C15:loopback.own_message_handled"|MISSED> [note]
copies a validated seeded defect from /tmp/seed/<PROP>_work into /verif/seeded/<PROP>-<k>/ (patch.diff, demo.py, meta.json)"""
import json, os, shutil, sys
P, K, caught = sys.argv[1:4]
note = ' '.join(sys.argv[4:])
root = os.environ.get('SEEDROOT', '/tmp/seed')
off = int(os.environ.get('SEEDOFFSET', '0'))
src = f'{root}/{P}_work'
dst = f'/verif/seeded/{P}-{int(K) + off}'
os.makedirs(dst, exist_ok=True)
shutil.copy(f'{src}/patch{K}.diff', f'{dst}/patch.diff')
shutil.copy(f'{src}/demo{K}.py', f'{dst}/demo.py')
meta = json.load(open(f'{src}/meta{K}.json'))
res = f'/tmp/seed/results/{P}_{int(K) + off}.txt'
meta.update({
    'id': f'{P}-{int(K) + off}', 'breaks_property': P,
    'origin': 'independent sub-agent given only the property text and a scratch worktree',
    'confirmed': {
        'demo_on_clean_tree': 'exit 0 (PROPERTY HOLDS)', 'demo_with_patch': 'exit 1 (PROPERTY VIOLATED)',
        'full_test_suite_with_patch': open(res).read().strip() if os.path.exists(res) else 'pending',
        'commands': [f'git -C <worktree> apply patch.diff', 'PYTHONPATH=<worktree>/src:<worktree> /venv/bin/python demo.py',
                     f'VERIF_REPO=<worktree> VERIF_NO_EVIDENCE=1 ./check <id> --tier quick', 'pytest -q (whole suite) in the patched worktree'],
    },
    'caught_by': caught, 'note': note,
})
json.dump(meta, open(f'{dst}/meta.json', 'w'), indent=1)
print('stored', dst)
