#!/usr/bin/env python3
import json, sys, glob
prop = sys.argv[1]
n = int(sys.argv[2]) if len(sys.argv) > 2 else 700
for f in sorted(glob.glob(f'/verif/replays/{prop}/*.json')):
    d = json.load(open(f))
    print('##', d['key'], 'x', d['occurrences'], '|', d['what'])
    print('    ', json.dumps(d['detail'], ensure_ascii=False)[:n])
