#!/usr/bin/env python3
"""Regenerates MANIFEST.json from the table below (keeps it valid at all times)."""
import json, os, subprocess
HERE = os.path.dirname(os.path.dirname(os.path.abspath(__file__)))
ALL = [f'C{i:02d}' for i in range(1, 21)]

CHECKS = {
 'C19': dict(level='exploration', design='3/C19',
   technique='configuration enumeration with runtime monitors: URL scanner over every message on the loop-back wire, recorder of the TLS context of every connection object, sys.addaudithook(socket.connect) + SSLContext.wrap_socket recorder on real localhost sockets, in-memory TLS handshake matrix',
   text='All 24 combinations of provider TLS {off,on} x consumer {none, optional, enforced} x {sync, async} provider components x alternative host name are run through a scripted session (metadata, GetMdib, subscriptions, 5 transactions with notifications, an operation invocation, Renew, GetStatus, Unsubscribe, shutdown with SubscriptionEnd) over the loop-back transport, which emulates a TLS/plaintext mismatch the way a socket would (SSLError / reset). Every URL in every message that points to an endpoint of the run must be https when that side is configured with TLS (enforced for the consumer); every connection object created towards a TLS side must carry the configured client context; an enforced consumer must fail against a plaintext provider instead of falling back. One run uses real localhost sockets with a generated PKI: an audit hook records each socket.connect and a recorder around SSLContext.wrap_socket attributes the context - every TCP connection to a provider / consumer port must have been wrapped by the expected client context. Contexts from mk_ssl_contexts(ca_file) must have verify_mode CERT_REQUIRED on both sides and an in-memory handshake matrix {trusted, untrusted, no certificate} x direction must accept only the trusted peer.',
   note='Loop-back runs do not perform real handshakes; the real-socket run uses the synchronous provider components (asyncio TLS wraps memory BIOs and cannot be attributed to a socket from the outside). Test PKI is committed under fixtures/pki.'),
 'C04': dict(level='exploration', design='3/C04',
   technique='runtime monitors on the wire log of the loop-back transport: report-vs-commit-diff oracle (provider version history), independent XSD validation of every message, per-subscriber order monitor under writer threads and writer-observed lock-granularity exploration, periodic-store walker',
   text='For every committed transaction of seeded histories (sync and async subscription managers, single- and multi-MDS MDIBs, two subscribers with different filters) the notifications found on the wire are parsed with lxml, their entities read back and canonicalised, and compared with diff(by_version[v-1], by_version[v]) of the provider history: version group of the commit, exactly the created / updated / deleted descriptors and changed states (union over the reports of the transaction, no entity twice with different content), content equal to the MDIB content at that version, each state under the part of its source MDS, no report kind the subscriber did not subscribe. Every distinct message that crossed the transport (requests, responses, notifications, faults, SubscriptionEnd at shutdown) is validated by an XMLSchema compiled from the bundled xsd files with an own resolver. Order: writer threads (2-6) and a lock-granularity exploration with the writer observed ({7 kinds}^2 x points x k foreign transactions) - per subscriber the MdibVersions of delivered reports must be non-decreasing. The periodic-report store is walked after every commit and flushed periodically: every retained / sent state must equal the content published for the version it is labelled with.',
   note='Entities in reports are read back with the library reader (cross-checked by C05) before canonical comparison; handles, version groups, SourceMds and report structure are taken from the bytes with lxml only. The periodic send loop is driven by calling the same send functions the loop calls when its timer fires.'),
 'C06': dict(level='fault_enumeration', design='3/C06',
   technique='fault-schedule injection on the loop-back transport between the real provider and consumer (drop / duplicate / hold-back / swap / replay / restart / reload in flight) with online monitors after every delivered or withheld message; provider version history as oracle',
   text='The transport captures every notification of the real provider (acknowledging it so that the subscription stays alive) and delivers the captured bytes to the real consumer according to seeded schedules built from the operators of the property: drop, duplicate immediately / later, hold back and release after further commits, swap neighbours, replay a window, provider restart (new SequenceId and/or InstanceId, MdibVersion continued / lower / higher), application reload, reload with the GetMdib response held in flight while further transactions are committed and their notifications (plus held-back older ones) are delivered from another thread. After every delivered or withheld message: consumer MdibVersion and every per-handle version non-decreasing, a stale or duplicated delivery leaves the canonical snapshot unchanged, lookups agree with a scan, every state held equals the content the provider published under (handle, version), nothing changes between an id change and the reload; after reload + in-order delivery the consumer snapshot equals the provider snapshot.',
   note='Notifications are re-delivered as the exact bytes the provider produced. Delivery during reload uses a second thread that is joined before the GetMdib response is released (deterministic). Schedules are sampled from the operator space, not enumerated.'),
 'C07': dict(level='exploration', design='3/C07',
   technique='deterministic schedule exploration at lock granularity (instance-level lock proxies, foreign transactions run at every scheduling point of the reader) + thread stress; per-version snapshot history as oracle',
   text='The MDIB lock and the three table locks of the provider MDIB under test are replaced on the instance by proxies that report the outermost acquire / release events of the reader. For every request kind (GetMdib, GetMdDescription with/without handles, GetMdState all / handles / context descriptor, GetContextStates all / descriptor / MDS) every scheduling point the request exposes is enumerated and 1 (and 2, for one MDIB in quick, all in thorough) complete foreign transactions of five kinds (requested state, other state, descriptor update, descriptor create, new associated context state) are executed at that point; requests go through the real consumer service clients over the loop-back. A snapshot history recorded inside the commit critical section is the oracle: every entity of a response must equal by_version[v] for the stated MdibVersion v and the selection must be the one at v. A thread stress (3 writers, 3 readers, 10 us switch interval) checks every response the same way. Exhaustive within the stated bounds for the lock-granularity schedules, sampled for finer interleavings.',
   note='Assumes a transaction holds the MDIB lock from begin to end (true for _transaction_manager), so running a foreign transaction synchronously at a point where the reader does not hold that lock equals scheduling a writer thread there. Interleavings inside serialisation are only reached by the thread stress.'),
 'C01': dict(level='exploration', design='3/C01',
   technique='runtime monitor: whole-MDIB canonical comparison consumer vs provider after every transaction of seeded histories over a socket-free loop-back of the real provider/consumer stack; per-report before/after monitor of the consumer observables against the report bytes',
   text='Real SdcProvider, SdcConsumer and ConsumerMdib are connected through an in-process loop-back transport (real SOAP clients, message factory/reader, schema validation, subscription managers - sync and async -, dispatchers). Seeded histories of all transaction kinds run on the four sample MDIBs (contextstates_in_getmdib on/off); one consumer is attached before the first transaction and one after a random prefix. After every transaction the canonical snapshot (descriptors with parents, states, context states, version group; lookups vs scan) of each consumer MDIB must equal the provider snapshot; for every delivered notification the consumer state of the entities in the report is captured before and after delivery and the observables fired in between must name exactly the entities that changed, with the objects stored in the tables. A consumer answering a valid report with an error is a violation.',
   note='Trusted: loop-back fidelity L1 (HTTP framing replaced, everything above it real); canonical form compares timestamps at 1 ms, implied == explicit values, ClockState.DateAndTime excluded.'),
 'C03': dict(level='fault_enumeration', design='3/C03',
   technique='fault injection + snapshot-equality oracle on the real provider: body crash points, rejected calls, raising pre-commit handler, natural commit failures, failpoints at the n-th table update; reflection-driven deep mutator on every handed-out object',
   text='A real provider (loop-back transport, one subscribed consumer as report sink) is driven through transactions that must not take effect: the body raises at every position (0..k of k handles, both interfaces; start/middle/end of every op kind in random histories, after deep mutation of the handed-out copies), API calls that must be rejected, a raising pre-commit handler, commits that fail for natural reasons (duplicate context handle, context-state deletion via entity), and a failpoint that makes the n-th table update of the commit raise. Oracle: full canonical snapshot (content, versions, saved version counters, table sizes, lookups) equal to the one before, nothing on the wire, no result published. Isolation: every nested attribute path (found by reflection over the property descriptors) of every object handed out by transaction getters (during and after the transaction), entity getters, transaction results and created descriptors is mutated once; after each mutation the MDIB snapshot and all retained earlier results must be unchanged.',
   note='Failpoints are instance-level wrappers of the table update methods installed by the harness. A failing report delivery after the tables were updated is not a failed commit (not judged here). Known finding: no rollback when the commit itself raises mid-way (key commit_fail.failpoint.no_rollback).'),
 'C02': dict(level='exploration', design='3/C02',
   technique='runtime monitor: canonical snapshot diff of the real ProviderMdib before/after every transaction of seeded histories + per-handle version high-water marks + structural walker',
   text='Seeded transaction histories (all state kinds, context, rt, descriptor create/update/delete/re-create, parent+child and descriptor+state in one transaction in both orders, location, empty/aborted/rejected; classic and entity interface) are executed on the real ProviderMdib loaded from the four sample MDIBs. After every transaction a canonical snapshot of all three tables is diffed against the previous one: MdibVersion +1 iff something changed, every changed entity has a higher version, no (handle, version) is ever seen with two contents, versions never decrease across delete/re-create, states carry their descriptor\'s DescriptorVersion, no orphan / duplicate, nothing changed that the transaction did not touch or is coupled to, all lookups agree with a scan. Held on the histories executed.',
   note='Trusted: my canonical form reads members through the public property descriptors; the coupling rules (parent of added/removed child, states of re-versioned descriptor, subtree of removed descriptor, states disassociated by disassociate_all / set_location) are taken from the statement.'),
 'C11': dict(level='exploration', design='3/C11',
   technique='runtime invariant: index-vs-scan walker as icontract class invariant on the real MultiKeyLookup (every public method boundary) + reference membership model over seeded operation sequences',
   text='Random operation sequences (add / duplicate unique key / same object twice / attribute change + update_object / remove / remove unknown / clear / add_index on filled table / plural and _no_lock variants / lookups) on real MultiKeyLookup tables with unique, multi, 1:n and None-skipping indices over a 3-6 key alphabet. Every index is recomputed from table.objects with the table\'s own key functions and compared with the index dictionaries and the reference bookkeeping (icontract invariant at each public method boundary + explicit walker after each operation); a reference model decides membership and which inserts must be rejected; a rejected insert must leave an identity-level snapshot of the table unchanged. The same walker runs at every quiescent point of the MDIB-level checks (C01, C02, C03, C06).',
   note='Trusted: the walker uses the table\'s own key functions; attribute changes without update_object are transient by design and excluded while the harness marks them dirty.'),
 'C15': dict(level='exploration', design='3/C15',
   technique='runtime monitor on the real send queue / send loop: exhaustive enumeration of both random draws (stubbed random), virtual clock, fake sockets; arithmetic oracle from the statement',
   text='The real NetworkingThread._repeated_enqueue_msg is executed for EVERY pair of outcomes of its two random draws (domains learned from the code itself by a dry run; 2 x 100 200 cases) for the unicast and multicast parameter sets and the entries on the real priority queue are checked against the formulas of the statement (count, initial delay, first gap window, doubling, cap). The real _run_send loop is driven on a virtual clock against a fake socket (every datagram counted, timed, ordered) and the own datagrams are fed back through the real _run_q_read loop (must be ignored; foreign ones handled once). Exhaustive for the draw space, sampled for the loop parts.',
   note='Trusted: time/random are looked up as module globals of networkingthread; sockets/selectors are fakes, the kernel UDP path is not exercised.'),
 'C18': dict(level='exploration', design='3/C18',
   technique='runtime oracle on the real converters: exhaustive ms windows + seeded value generators, arithmetic (Fraction) and XSD-lexical recognisers as oracle',
   text='Real TimestampConverter/DecimalConverter/DurationConverter/isoduration/Integer/Boolean/Enum converters executed on every ms value of two dense windows (from 0 and around the current epoch), strided samples up to 2^53/1000, every (sign, digit count<=18, scale -18..18) decimal shape, generated durations/dates and every enum member; results compared with exact rational arithmetic and lexical recognisers written from XSD part 2. Held on what was enumerated/sampled, nothing more.',
   note='Trusted: Python Fraction/Decimal arithmetic, my lexical regexes; whitespace-padded literals are treated as valid (collapsed by the XML processor).'),
}

def main():
    checks = []
    for pid in ALL:
        if pid not in CHECKS:
            continue
        c = CHECKS[pid]
        checks.append({
            'property_id': pid,
            'quick_cmd': f'./check {pid} --tier quick',
            'thorough_cmd': f'./check {pid} --tier thorough',
            'evidence_file': f'/verif/evidence/{pid}.json',
            'replay_cmd_template': f'./check {pid} --replay {{path}}',
            'engine': 'vf',
            'level_claimed': {'category': c['level'], 'text': c['text'], 'design_ref': c['design']},
            'level_note': c['note'],
            'technique': c['technique'],
        })
    na = [{'property_id': pid, 'reason': 'runtime monitor designed (DESIGN.md section 3) but not built yet in this round; not claimed until its check exists'}
          for pid in ALL if pid not in CHECKS]
    manifest = {
        'version': 1,
        'setup_cmd': '/venv/bin/pip install -q --no-index --find-links /opt/veriftools/wheels --target /verif/.deps icontract asttokens || true',
        'hooks': {'guard': 'SDC11073_VERIF', 'enable': 'no repository hooks: all monitors attach from the harness (dependency injection, instance-level lock proxies, sys.monitoring); checks run /repo/src directly via PYTHONPATH',
                  'baseline_off_cmd': 'cd /repo && /venv/bin/python -m pytest -ra -q -p no:cacheprovider --timeout=900 --continue-on-collection-errors',
                  'source_commits': [], 'add_only': True},
        'engines': [{'name': 'vf', 'path': '/verif/vf', 'serves_properties': sorted(CHECKS), 'kind_free_text': 'Python runtime-monitoring harness: socket-free loop-back transport, per-version MDIB history oracle, reference models, schedule explorer, failpoints (sys.monitoring), virtual clock'}],
        'checks': checks,
        'not_applicable': na,
        'notes': 'Every check: ./check <id> --tier quick|thorough; exit 0 held on what was observed, 1 VIOLATION, 2 INCONCLUSIVE (monitor reach below floor / watchdog). Known findings: /verif/known_findings.json.',
    }
    with open(os.path.join(HERE, 'MANIFEST.json'), 'w') as f:
        json.dump(manifest, f, indent=1)
    # validate
    try:
        import jsonschema
        jsonschema.validate(manifest, json.load(open('/root/.vp/MANIFEST.schema.json')))
        print('MANIFEST valid;', len(checks), 'checks')
    except ImportError:
        print('jsonschema not importable here; written', len(checks), 'checks')

if __name__ == '__main__':
    main()
