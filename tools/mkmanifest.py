#!/usr/bin/env python3
"""Regenerates MANIFEST.json from the table below (keeps it valid at all times)."""
import json, os, subprocess
HERE = os.path.dirname(os.path.dirname(os.path.abspath(__file__)))
ALL = [f'C{i:02d}' for i in range(1, 21)]

CHECKS = {
 'C15': dict(level='exploration', design='3/C15',
   technique='runtime monitor on the real send queue / send loop: exhaustive enumeration of both random draws (stubbed random), virtual clock, fake sockets; arithmetic oracle from the statement',
   text='The real NetworkingThread._repeated_enqueue_msg is executed for EVERY pair of outcomes of its two random draws (domains learned from the code itself by a dry run; 2 x 100 200 cases) for the unicast and multicast parameter sets and the entries on the real priority queue are checked against the formulas of the statement (count, initial delay, first gap window, doubling, cap). The real _run_send loop is driven on a virtual clock against a fake socket (every datagram counted, timed, ordered) and the own datagrams are fed back through the real _run_q_read loop (must be ignored; foreign ones handled once). Exhaustive for the draw space, sampled for the loop parts.',
   note='Trusted: time/random are looked up as module globals of networkingthread; sockets/selectors are fakes, the kernel UDP path is not exercised.'),
 'C18': dict(level='exploration', design='3/C18',
   technique='runtime oracle on the real converters: exhaustive ms windows + seeded value generators, arithmetic (Fraction) and XSD-lexical recognisers as oracle',
   text='Real TimestampConverter/DecimalConverter/DurationConverter/isoduration/Integer/Boolean/Enum converters executed on every ms value of two dense windows (from 0 and around the current epoch), strided samples up to 2^53/1000, every (sign, digit count<=18, scale -18..18) decimal shape, generated durations/dates and every enum member; results compared with exact rational arithmetic and lexical recognisers written from XSD part 2. Held on what was enumerated/sampled, nothing more.',
   note='Trusted: Python Fraction/Decimal arithmetic, my lexical regexes; whitespace-padded literals are treated as valid (collapsed by the XML processor).'),
}

def main():
    checks = []
    for pid in ALL:
        if pid not in CHECKS:
            continue
        c = CHECKS[pid]
        checks.append({
            'property_id': pid,
            'quick_cmd': f'./check {pid} --tier quick',
            'thorough_cmd': f'./check {pid} --tier thorough',
            'evidence_file': f'/verif/evidence/{pid}.json',
            'replay_cmd_template': f'./check {pid} --replay {{path}}',
            'engine': 'vf',
            'level_claimed': {'category': c['level'], 'text': c['text'], 'design_ref': c['design']},
            'level_note': c['note'],
            'technique': c['technique'],
        })
    na = [{'property_id': pid, 'reason': 'runtime monitor designed (DESIGN.md section 3) but not built yet in this round; not claimed until its check exists'}
          for pid in ALL if pid not in CHECKS]
    manifest = {
        'version': 1,
        'setup_cmd': '/venv/bin/pip install -q --no-index --find-links /opt/veriftools/wheels --target /verif/.deps icontract asttokens || true',
        'hooks': {'guard': 'SDC11073_VERIF', 'enable': 'no repository hooks: all monitors attach from the harness (dependency injection, instance-level lock proxies, sys.monitoring); checks run /repo/src directly via PYTHONPATH',
                  'baseline_off_cmd': 'cd /repo && /venv/bin/python -m pytest -ra -q -p no:cacheprovider --timeout=900 --continue-on-collection-errors',
                  'source_commits': [], 'add_only': True},
        'engines': [{'name': 'vf', 'path': '/verif/vf', 'serves_properties': sorted(CHECKS), 'kind_free_text': 'Python runtime-monitoring harness: socket-free loop-back transport, per-version MDIB history oracle, reference models, schedule explorer, failpoints (sys.monitoring), virtual clock'}],
        'checks': checks,
        'not_applicable': na,
        'notes': 'Every check: ./check <id> --tier quick|thorough; exit 0 held on what was observed, 1 VIOLATION, 2 INCONCLUSIVE (monitor reach below floor / watchdog). Known findings: /verif/known_findings.json.',
    }
    with open(os.path.join(HERE, 'MANIFEST.json'), 'w') as f:
        json.dump(manifest, f, indent=1)
    # validate
    try:
        import jsonschema
        jsonschema.validate(manifest, json.load(open('/root/.vp/MANIFEST.schema.json')))
        print('MANIFEST valid;', len(checks), 'checks')
    except ImportError:
        print('jsonschema not importable here; written', len(checks), 'checks')

if __name__ == '__main__':
    main()
