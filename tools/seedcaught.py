#!/usr/bin/env python3
"""tools/seedcaught.py <seed-id> <check:key[,key]> [note]: record which check key now reports a seed that was missed at first"""
import json, sys
sid, caught = sys.argv[1:3]
note = ' '.join(sys.argv[3:])
p = f'/verif/seeded/{sid}/meta.json'
m = json.load(open(p))
m['caught_by'] = caught
m['note'] = 'missed at first (round 4): ' + note
json.dump(m, open(p, 'w'), indent=1)
print(sid, '->', caught)
