#!/bin/bash
# runs the repository's own suite (guard off) on a scratch worktree of /repo HEAD; log -> /tmp/rt_<sha>.log
sha=$(git -C /repo rev-parse --short HEAD)
wt=/tmp/rt_$sha
git -C /repo worktree remove --force $wt 2>/dev/null
git -C /repo worktree add -q --detach $wt HEAD || exit 3
cd $wt
unset SDC11073_VERIF; export PYTHONPATH=$wt/src:$wt
/venv/bin/python -m pytest -ra -q -p no:cacheprovider --timeout=900 --continue-on-collection-errors "$@" > /tmp/rt_$sha.log 2>&1
rc=$?
/venv/bin/python - <<PY >> /tmp/rt_$sha.log
import sdc11073; print('imported from', sdc11073.__file__)
PY
cd /
git -C /repo worktree remove --force $wt
echo "rc=$rc" >> /tmp/rt_$sha.log
tail -5 /tmp/rt_$sha.log
exit $rc
