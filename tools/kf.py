#!/usr/bin/env python3
"""tools/kf.py <property> <key> <open|fixed> <commit or -> <what...>   : add / update an entry of known_findings.json"""
import json, sys
prop, key, status, commit = sys.argv[1:5]
what = ' '.join(sys.argv[5:])
p = '/verif/known_findings.json'
d = json.load(open(p))
d['findings'] = [e for e in d['findings'] if not (e['property'] == prop and e['key'] == key)]
e = {'property': prop, 'key': key, 'status': status}
if commit != '-':
    e['commit'] = commit
    what = f'fixed: property={prop} {commit} {what}' if status == 'fixed' else what
e['what'] = what
d['findings'].append(e)
d['findings'].sort(key=lambda e: (e['property'], e['status'], e['key']))
json.dump(d, open(p, 'w'), indent=1, ensure_ascii=False)
print('ok', len(d['findings']))
