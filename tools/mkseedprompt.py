#!/usr/bin/env python3
"""tools/mkseedprompt.py <round-dir> <PROP>...: writes <round-dir>/<PROP>_prompt.md, the complete brief for an independent
'breaker' sub-agent (property text + scratch worktree + sites used by earlier rounds; nothing about the checks in /verif)."""
import json, os, sys, glob
root = sys.argv[1]
props = {json.loads(l)['id']: json.loads(l) for l in open('/verif/properties.jsonl')}
for P in sys.argv[2:]:
    p = props[P]
    used = []
    for m in sorted(glob.glob(f'/verif/seeded/{P}-*/meta.json')):
        used.append('* ' + json.load(open(m)).get('summary', '')[:230].replace('\n', ' '))
    text = f"""# Task: write realistic regressions of Draegerwerk/sdc11073 that break ONE semantic property

You work in your own scratch git worktree of the library: `{root}/{P}_wt` (pure Python, run it with
`PYTHONPATH={root}/{P}_wt/src:{root}/{P}_wt /venv/bin/python`; tests: `cd {root}/{P}_wt && PYTHONPATH=$PWD/src:$PWD /venv/bin/python -m pytest -q -p no:cacheprovider --timeout=900 tests/<file>`).
Work ONLY there and in `{root}/{P}_work/` (create it).  Do NOT read or touch `/verif` or `/repo` (the worktree has everything) and do not run
git commands other than `git diff`, `git status`, `git checkout -- .`, `git apply` inside your worktree.  There is no network.

## The property (of the unchanged library it holds)

```json
{json.dumps({k: p[k] for k in ('id', 'title', 'statement', 'quantifier', 'why_tests_cant', 'anchors')}, indent=1)}
```

## What to deliver: 3 different changes (k = 1, 2, 3), each one

* a small source change under `src/sdc11073/` that a developer could plausibly make in good faith (a refactoring, an 'optimisation', a tidy-up,
  a moved statement, a narrowed/widened condition, a cache, a changed default, two cooperating sites that each look fine alone ...),
  after which the library still imports, and **the existing test suite still passes**;
* that makes the property statement FALSE for the real code - judged by the statement as written (behavioural, at the level of the public API /
  wire), not by some internal convention;
* that needs **something specific to manifest**: a particular interleaving of threads, a fault or crash at a particular point, a multi-step
  sequence of operations, an unusual-but-valid input or boundary value, a non-default configuration / alternative component class, or two
  cooperating sites.  NOT something ordinary use would expose at once, and not a change that simply deletes the mechanism;
* the three changes must sit in three different mechanisms / code sites of the anchors, and must differ from the sites already used by
  earlier rounds (listed below).  Prefer parts of the statement (clauses, roles, configurations) that the list below does not touch at all.

Sites / ideas already used by earlier rounds (do NOT repeat these or trivial variants of them):
{os.linesep.join(used)}

For each k write into `{root}/{P}_work/`:

1. `patch<k>.diff` - `git diff` of the change against the worktree's HEAD (must apply with `git apply` on a clean worktree; only files under src/);
2. `demo<k>.py` - a stand-alone program (stdlib + the library, no pytest, no network beyond 127.0.0.1, finishes in < 120 s, deterministic - if an
   interleaving is needed, force it with events/locks/monkey-patched hooks rather than hoping for it) that exercises the REAL library code and
   prints `PROPERTY HOLDS` and exits 0 on the unchanged tree, prints `PROPERTY VIOLATED: <what was observed>` and exits 1 with the patch applied.
   It must demonstrate a violation of the *statement* (say in a comment which clause), through public API / wire behaviour;
3. `meta<k>.json` - `{{"property": "{P}", "summary": "<what was changed, 1-2 sentences>", "mechanism": "<which anchored mechanism>",
   "needs_to_manifest": "<what exactly is needed to see it and why ordinary use does not>", "tests_run": ["tests/..."], "tests_result": "<n passed ...>"}}`.

## How to work
1. Read the anchored source files and the tests that cover them (`tests/`), so that you know what the suite asserts and what it does not.
2. For each idea: apply it, run your demo with and without it (`git stash` is not allowed - use `git diff > patch; git checkout -- .; ... ; git apply patch`),
   then run the test files that touch the changed code with the patch applied (the whole suite takes ~13 min of mostly sleeping; run at least the
   relevant files, the lead will run the whole suite).  A change that fails a test is useless - drop or rework it.
3. Verify at the end, from a clean worktree, for every k: demo exits 0 clean; `git apply patch<k>.diff`; demo exits 1; `git checkout -- .`.
4. Leave the worktree clean.  Final answer: for each k two lines (what, needs) and the verification results.  If you could only make 2 good ones, deliver 2.
"""
    open(f'{root}/{P}_prompt.md', 'w').write(text)
    print(P, len(text))
