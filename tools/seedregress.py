#!/usr/bin/env python3
"""tools/seedregress.py [id-substring ...] : regression run of the checks against every stored seeded defect.

For each /verif/seeded/<id>/ a scratch worktree of /repo (under /tmp, removed afterwards) is patched and the quick tier of the check
named first in meta.json 'caught_by' is run against it (VERIF_REPO, VERIF_NO_EVIDENCE=1).  Expected: exit 1 with a VIOLATION line.
Results -> stdout and /verif/scratch/seedregress.json.  Exit 1 if a seed is no longer caught.
"""
import concurrent.futures
import glob
import json
import os
import subprocess
import sys

VERIF = os.path.dirname(os.path.dirname(os.path.abspath(__file__)))


def run_one(d):
    sid = os.path.basename(d)
    meta = json.load(open(f'{d}/meta.json'))
    if meta.get('status') == 'neutralised':
        return sid, sid.split('-')[0], 'NEUTRALISED', []
    check = (meta.get('caught_by') or sid).split(':')[0].strip() or sid.split('-')[0]
    if not check.startswith('C') or len(check) != 3:
        check = sid.split('-')[0]
    wt = f'/tmp/sr_{sid}_{os.getpid()}'
    subprocess.run(['git', '-C', '/repo', 'worktree', 'remove', '--force', wt], capture_output=True)
    r = subprocess.run(['git', '-C', '/repo', 'worktree', 'add', '-q', '--detach', wt, 'HEAD'], capture_output=True, text=True)
    if r.returncode:
        return sid, check, 'worktree failed', []
    try:
        r = subprocess.run(['git', '-C', wt, 'apply', f'{d}/patch.diff'], capture_output=True, text=True)
        if r.returncode:
            return sid, check, 'PATCH DOES NOT APPLY', [r.stderr.strip()[:200]]
        env = dict(os.environ, VERIF_REPO=wt, VERIF_NO_EVIDENCE='1')
        try:
            r = subprocess.run(['./check', check, '--tier', 'quick'], cwd=VERIF, env=env, capture_output=True, text=True, timeout=1800)
        except subprocess.TimeoutExpired:
            return sid, check, 'TIMEOUT', []
        keys = sorted({ln.split('key=')[1].split(' ')[0] for ln in r.stdout.splitlines() if 'key=' in ln and 'KNOWN' not in ln})
        status = {0: 'MISSED', 1: 'CAUGHT', 2: 'INCONCLUSIVE'}.get(r.returncode, f'rc={r.returncode}')
        return sid, check, status, keys
    finally:
        subprocess.run(['git', '-C', '/repo', 'worktree', 'remove', '--force', wt], capture_output=True)


def main():
    sel = sys.argv[1:]
    dirs = sorted(d for d in glob.glob(f'{VERIF}/seeded/*-*') if not sel or any(s in os.path.basename(d) for s in sel))
    results = {}
    with concurrent.futures.ThreadPoolExecutor(max_workers=int(os.environ.get('JOBS', '3'))) as ex:
        for sid, check, status, keys in ex.map(run_one, dirs):
            results[sid] = {'check': check, 'status': status, 'keys': keys[:12]}
            print(f'{sid:8s} {check} {status:14s} {",".join(keys)[:200]}', flush=True)
    os.makedirs(f'{VERIF}/scratch', exist_ok=True)
    json.dump(results, open(f'{VERIF}/scratch/seedregress.json', 'w'), indent=1)
    bad = [s for s, r in results.items() if r['status'] not in ('CAUGHT', 'NEUTRALISED')]
    print(f'{len(results) - len(bad)}/{len(results)} caught; not caught: {bad}')
    return 1 if bad else 0


if __name__ == '__main__':
    sys.exit(main())
